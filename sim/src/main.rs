fn main(){ println!("{:?}", ppp::HeaderResult::parse(b"PROXY UNKNOWN\r\n")); }
