//! pppsim — deterministic simulation with fault injection for misalcedo/ppp.
//!
//!   pppsim check <ID> <quick|thorough>     run a check, write evidence, exit 0/1/2
//!   pppsim replay <file> [--quiet]         re-execute a replay file (exit 1 if it reproduces)
//!   pppsim digest <ID> <runs> <workers> [out]   per-run event-log digests (determinism self-test)
//!   pppsim roundtrip <ID> <runs>           scenario -> JSON -> scenario -> same digest (replay self-test)
//!   pppsim show <ID> <index>               print the scenario of a run index and its trace

#![allow(dead_code)]
mod builder_hist;
mod checks;
mod engine;
mod faults;
mod recv;
mod rng;
mod scenario;
mod transport;
mod wire;

use engine::{Stats, Tier};
use std::sync::Mutex;

fn usage() -> ! {
    eprintln!("usage: pppsim check <ID> <quick|thorough> | replay <file> [--quiet] | digest <ID> <runs> <workers> [out] | roundtrip <ID> <runs> | show <ID> <index>");
    std::process::exit(2);
}

fn tier_of(s: &str) -> Tier {
    match s {
        "quick" => Tier::Quick,
        "thorough" => Tier::Thorough,
        _ => usage(),
    }
}

fn main() {
    recv::install_panic_hook();
    let args: Vec<String> = std::env::args().collect();
    if args.len() < 2 {
        usage();
    }
    match args[1].as_str() {
        "check" => {
            // supervisor: the batch runs in a child process, so that a fatal crash of the code
            // under test (stack overflow, abort, out-of-memory kill) is a finding with a replay
            // file instead of a dead check
            if args.len() < 4 {
                usage();
            }
            let check = checks::by_id(&args[2]).unwrap_or_else(|| {
                eprintln!("pppsim: no check for property {}", args[2]);
                std::process::exit(2);
            });
            let tier = tier_of(&args[3]);
            if std::env::var("VERIF_NO_SUPERVISOR").is_ok() {
                let out = engine::run_check(check.as_ref(), tier);
                std::process::exit(out.exit_code);
            }
            let exe = std::env::current_exe().expect("current_exe");
            let status = std::process::Command::new(&exe)
                .args(["check-child", &args[2], &args[3]])
                .status()
                .expect("cannot start the batch process");
            if let Some(code) = status.code() {
                std::process::exit(code);
            }
            std::process::exit(engine::crashed_batch(check.as_ref(), tier, &format!("{}", status)));
        }
        "check-child" => {
            if args.len() < 4 {
                usage();
            }
            let check = checks::by_id(&args[2]).unwrap_or_else(|| usage());
            let out = engine::run_check(check.as_ref(), tier_of(&args[3]));
            std::process::exit(out.exit_code);
        }
        "seqscan" => {
            // pppsim seqscan <ID> <tier> <limit>: runs 0..limit in order on one thread
            if args.len() < 5 {
                usage();
            }
            let id = args[2].clone();
            let tier = tier_of(&args[3]);
            let limit: u64 = args[4].parse().unwrap_or_else(|_| usage());
            let t = std::thread::spawn(move || {
                let check = checks::by_id(&id).unwrap_or_else(|| usage());
                engine::seq_scan(check.as_ref(), tier, limit, 25);
            });
            let _ = t.join();
            std::process::exit(0);
        }
        "range" => {
            // pppsim range <ID> <tier> <lo> <hi>: execute the runs lo..hi and nothing else
            if args.len() < 6 {
                usage();
            }
            let check = checks::by_id(&args[2]).unwrap_or_else(|| usage());
            let tier = tier_of(&args[3]);
            let lo: u64 = args[4].parse().unwrap_or_else(|_| usage());
            let hi: u64 = args[5].parse().unwrap_or_else(|_| usage());
            engine::run_range(check.as_ref(), tier, lo, hi);
            std::process::exit(0);
        }
        "replay" => {
            if std::env::var("VERIF_NO_SUPERVISOR").is_err() && args.len() >= 3 {
                // a recorded crash kills the replaying process too: supervise it
                let exe = std::env::current_exe().expect("current_exe");
                let status = std::process::Command::new(&exe)
                    .args(&args[1..])
                    .env("VERIF_NO_SUPERVISOR", "1")
                    .status()
                    .expect("cannot start the replay process");
                if let Some(code) = status.code() {
                    std::process::exit(code);
                }
                let rp = engine::read_replay(&args[2]).ok();
                if rp.as_ref().map(|r| r.clause == "abort").unwrap_or(false) {
                    println!("replay of {}: the process died ({})", args[2], status);
                    println!(
                        "VIOLATION property={} replay={}",
                        rp.unwrap().scenario.check,
                        args[2]
                    );
                    std::process::exit(1);
                }
                eprintln!("pppsim: the replay process died ({})", status);
                std::process::exit(2);
            }
            if args.len() < 3 {
                usage();
            }
            let quiet = args.iter().any(|a| a == "--quiet");
            let rp = match engine::read_replay(&args[2]) {
                Ok(r) => r,
                Err(e) => {
                    eprintln!("pppsim: {}", e);
                    std::process::exit(2);
                }
            };
            let check = checks::by_id(&rp.scenario.check).unwrap_or_else(|| {
                eprintln!("pppsim: no check for property {}", rp.scenario.check);
                std::process::exit(2);
            });
            // a recorded hang is replayed under the same 60 s watchdog that found it
            let (tx, rx) = std::sync::mpsc::channel();
            let scenario = rp.scenario.clone();
            let id = rp.scenario.check.clone();
            std::thread::spawn(move || {
                let check = checks::by_id(&id).expect("check");
                let mut st = Stats {
                    trace: Some(Vec::new()),
                    ..Default::default()
                };
                let vs = engine::exec(check.as_ref(), &scenario, &mut st);
                let _ = tx.send((vs, st));
            });
            let (vs, st) = match rx.recv_timeout(std::time::Duration::from_secs(62)) {
                Ok(x) => x,
                Err(_) => {
                    if !quiet {
                        println!("replay of {}: the run did not finish within 60 s of wall clock", args[2]);
                    }
                    if rp.clause == "hang" {
                        println!(
                            "VIOLATION property={} replay={}",
                            rp.scenario.check, args[2]
                        );
                        std::process::exit(1);
                    }
                    eprintln!("pppsim: replay hangs although the recorded clause is {}", rp.clause);
                    std::process::exit(2);
                }
            };
            let _ = &check;
            if !quiet {
                println!(
                    "replay of {} ({} clause {}), profile {}",
                    args[2],
                    rp.property,
                    rp.clause,
                    engine::build_profile()
                );
                for l in st.trace.unwrap_or_default() {
                    println!("  {}", l);
                }
                println!("  event-log digest {:016x}", st.run_digest.finish());
            }
            let same: Vec<_> = vs.iter().filter(|v| v.clause == rp.clause).collect();
            if let Some(v) = same.first() {
                if !quiet {
                    println!("  signature: {}", v.signature());
                    println!("  detail: {}", v.detail);
                }
                println!(
                    "VIOLATION property={} replay={}",
                    rp.scenario.check, args[2]
                );
                std::process::exit(1);
            }
            if !quiet {
                if vs.is_empty() {
                    println!("no violation: the scenario passes on this tree");
                } else {
                    println!(
                        "the recorded clause did not reproduce; other clauses fired: {:?}",
                        vs.iter().map(|v| v.clause.clone()).collect::<Vec<_>>()
                    );
                }
            }
            std::process::exit(0);
        }
        "digest" => {
            if args.len() < 5 {
                usage();
            }
            let check = checks::by_id(&args[2]).unwrap_or_else(|| usage());
            let runs: u64 = args[3].parse().unwrap_or_else(|_| usage());
            let workers: usize = args[4].parse().unwrap_or_else(|_| usage());
            let per_run = Mutex::new(Vec::new());
            let res = engine::run_batch(
                check.as_ref(),
                engine::master_seed(),
                runs,
                Tier::Quick,
                workers,
                3600.0,
                Some(&per_run),
            );
            let mut v = per_run.into_inner().unwrap();
            v.sort_unstable();
            let mut text = String::new();
            for (i, d) in &v {
                text.push_str(&format!("{} {:016x}\n", i, d));
            }
            text.push_str(&format!(
                "batch {:016x} violations {}\n",
                res.stats.batch_digest,
                res.violations.len()
            ));
            if args.len() > 5 {
                std::fs::write(&args[5], text).expect("write digest file");
            } else {
                print!("{}", text);
            }
        }
        "roundtrip" => {
            if args.len() < 4 {
                usage();
            }
            let check = checks::by_id(&args[2]).unwrap_or_else(|| usage());
            let runs: u64 = args[3].parse().unwrap_or_else(|_| usage());
            let master = engine::master_seed();
            let mut bad = 0;
            for i in 0..runs {
                let sc = engine::scenario_for(check.as_ref(), master, i, Tier::Quick);
                let mut a = Stats::default();
                let va = check.execute(&sc, &mut a);
                let text = serde_json::to_string(&sc.to_json()).unwrap();
                let back = scenario::Scenario::from_json(&serde_json::from_str(&text).unwrap())
                    .unwrap_or_else(|e| {
                        eprintln!("pppsim: run {}: cannot read scenario back: {}", i, e);
                        std::process::exit(2);
                    });
                let mut b = Stats::default();
                let vb = check.execute(&back, &mut b);
                if a.run_digest.finish() != b.run_digest.finish() || va.len() != vb.len() {
                    eprintln!("pppsim: run {}: replayed scenario diverges from in-memory execution", i);
                    bad += 1;
                }
            }
            if bad > 0 {
                std::process::exit(2);
            }
            println!("roundtrip ok: {} scenarios of {}", runs, args[2]);
        }
        "show" => {
            if args.len() < 4 {
                usage();
            }
            let check = checks::by_id(&args[2]).unwrap_or_else(|| usage());
            let index: u64 = args[3].parse().unwrap_or_else(|_| usage());
            let sc = engine::scenario_for(check.as_ref(), engine::master_seed(), index, Tier::Quick);
            println!("{}", serde_json::to_string_pretty(&sc.to_json()).unwrap());
            let mut st = Stats {
                trace: Some(Vec::new()),
                ..Default::default()
            };
            let vs = check.execute(&sc, &mut st);
            for l in st.trace.unwrap_or_default() {
                println!("  {}", l);
            }
            for v in vs {
                println!("violation: {} :: {}", v.signature(), v.detail);
            }
        }
        _ => usage(),
    }
}
