//! Stream-level faults: what a buggy sender, a middlebox or a hostile peer does to
//! the bytes before they reach the receiver. Each returns the name of the fault
//! that was actually applied (for the per-run fault counters).

use crate::rng::Rng;
use crate::wire::{self, assemble_v2, gen_v2_spec, multibyte_samples};

/// In-flight corruption of an otherwise well-formed stream.
pub fn corrupt(rng: &mut Rng, stream: &mut Vec<u8>, header_len: usize) -> &'static str {
    if stream.is_empty() {
        stream.push(rng.byte());
        return "corrupt_insert";
    }
    // position biased into the header
    let limit = if header_len > 0 && rng.chance(4, 5) {
        header_len.min(stream.len())
    } else {
        stream.len()
    };
    let pos = rng.below(limit.max(1));
    if rng.chance(1, 12) {
        // a leftover of the peer's previous line in front of everything
        let junk: &[u8] = *rng.pick(&[&b"\n"[..], &b"\r\n"[..], &b" "[..], &b"\0"[..], &b"\r"[..], &b"\n\n"[..]]);
        stream.splice(0..0, junk.iter().copied());
        return "corrupt_leading_junk";
    }
    if rng.chance(1, 16) {
        // a byte order mark in front of everything (text that went through an editor / file)
        stream.splice(0..0, "\u{feff}".bytes());
        return "corrupt_bom_prefix";
    }
    match rng.below(9) {
        0 => {
            stream[pos] ^= 1 << rng.below(8);
            "corrupt_bitflip"
        }
        1 => {
            stream[pos] = rng.byte();
            "corrupt_byte_replace"
        }
        2 | 3 => {
            // replace a byte by a multi-byte UTF-8 sequence, biased to right after a CR
            let crs: Vec<usize> = stream
                .iter()
                .enumerate()
                .filter(|(_, b)| **b == b'\r')
                .map(|(i, _)| i + 1)
                .filter(|i| *i < stream.len())
                .collect();
            let p = if !crs.is_empty() && rng.chance(2, 3) {
                *rng.pick(&crs)
            } else {
                pos
            };
            let m: &str = *rng.pick(multibyte_samples());
            stream.splice(p..p + 1, m.bytes());
            "corrupt_multibyte"
        }
        4 => {
            stream.insert(pos, b'\r');
            "corrupt_insert_cr"
        }
        5 => {
            stream.remove(pos);
            "corrupt_delete"
        }
        6 => {
            stream.insert(pos, *rng.pick(b" \n\0+-0"));
            "corrupt_insert"
        }
        7 => {
            // a TLV / v2 length byte set to an extreme
            stream[pos] = *rng.pick(&[0x00u8, 0xff, 0x7f, 0x80]);
            "corrupt_extreme_byte"
        }
        _ => {
            let k = rng.range(0, stream.len());
            stream.truncate(k);
            "corrupt_truncate"
        }
    }
}

/// Two headers back to back, or one version's start followed by the other's.
pub fn splice(rng: &mut Rng) -> (Vec<u8>, &'static str) {
    match rng.below(5) {
        0 => {
            let mut a = wire::gen_v1(rng, false).bytes;
            a.extend(wire::gen_v2(rng, false).0.bytes);
            (a, "splice_v1_then_v2")
        }
        1 => {
            let mut a = wire::gen_v2(rng, false).0.bytes;
            a.extend(wire::gen_v1(rng, false).bytes);
            (a, "splice_v2_then_v1")
        }
        2 => {
            // v2 signature (or a prefix of it) followed by text
            let k = rng.range(1, 12);
            let mut a = wire::V2_SIG[..k].to_vec();
            a.extend(wire::gen_v1(rng, false).bytes);
            (a, "splice_sig_then_text")
        }
        3 => {
            // text (no line end yet) followed by a v2 header
            let t = wire::gen_v1(rng, true).bytes;
            let k = rng.range(0, t.len() - 2);
            let mut a = t[..k].to_vec();
            a.extend(wire::gen_v2(rng, false).0.bytes);
            (a, "splice_text_then_v2")
        }
        _ => {
            let mut a = wire::gen_v1(rng, false).bytes;
            a.extend(wire::gen_v1(rng, false).bytes);
            (a, "splice_v1_then_v1")
        }
    }
}

/// A v2 sender whose declared length disagrees with what it wrote. Produced with
/// the real `Builder::set_length` when the builder accepts the spec.
pub fn length_lie(rng: &mut Rng) -> (Vec<u8>, &'static str) {
    let mut spec = gen_v2_spec(rng, false);
    let actual = spec.payload_len();
    let declared = match rng.below(6) {
        0 => 0,
        1 => actual.saturating_sub(1),
        2 => actual + 1,
        3 => rng.below(actual + 1),
        4 => 65535,
        _ => rng.below(65536),
    }
    .min(65535) as u16;
    spec.declared = Some(declared);
    match wire::build_v2_real(rng, &spec) {
        Some(b) => (b, "length_lie_real_builder"),
        None => (assemble_v2(&spec).bytes, "length_lie_hand"),
    }
}
