//! The receiving node: a generalisation of `examples/server.rs::handle_connection`
//! (re-parse the growing buffer after every read until the verdict is complete),
//! over a simulated socket instead of a hard-coded `TcpStream`.
//!
//! Every verdict comes from the real library. Only library calls are wrapped in
//! `catch_unwind`, so a bug in the harness is never reported as a library panic.

use crate::scenario::{Entry, Ev, Scenario};
use ppp::{v1, v2, HeaderResult, PartialResult};
use std::cell::RefCell;
use std::panic::{catch_unwind, AssertUnwindSafe};

thread_local! {
    static LAST_PANIC: RefCell<Option<String>> = const { RefCell::new(None) };
    static IN_GUARD: RefCell<bool> = const { RefCell::new(false) };
}

/// Install a quiet panic hook that records message and location for guarded
/// calls and keeps the default behaviour (message on stderr) for harness bugs.
pub fn install_panic_hook() {
    let default = std::panic::take_hook();
    std::panic::set_hook(Box::new(move |info| {
        let guarded = IN_GUARD.with(|g| *g.borrow());
        if guarded {
            let msg = if let Some(s) = info.payload().downcast_ref::<&str>() {
                s.to_string()
            } else if let Some(s) = info.payload().downcast_ref::<String>() {
                s.clone()
            } else {
                "<non-string panic>".to_string()
            };
            let loc = info
                .location()
                .map(|l| format!("{}:{}", l.file(), l.line()))
                .unwrap_or_default();
            LAST_PANIC.with(|p| *p.borrow_mut() = Some(format!("{} @ {}", msg, loc)));
        } else {
            default(info);
        }
    }));
}

/// Run a library call; an unwind becomes `Err(description)`.
pub fn guard<T>(f: impl FnOnce() -> T) -> Result<T, String> {
    IN_GUARD.with(|g| *g.borrow_mut() = true);
    let r = catch_unwind(AssertUnwindSafe(f));
    IN_GUARD.with(|g| *g.borrow_mut() = false);
    match r {
        Ok(v) => Ok(v),
        Err(_) => Err(LAST_PANIC
            .with(|p| p.borrow_mut().take())
            .unwrap_or_else(|| "panic".to_string())),
    }
}

/// Location part of a recorded panic ("msg @ file:line" -> "file:line" relative to the repo).
pub fn panic_site(desc: &str) -> String {
    let loc = desc.rsplit(" @ ").next().unwrap_or("");
    match loc.find("src/") {
        Some(i) => loc[i..].to_string(),
        None => loc.to_string(),
    }
}

/// What one entry point said about one buffer.
#[derive(Debug, PartialEq)]
pub enum Verdict<'a> {
    Auto(HeaderResult<'a>),
    V1B(Result<v1::Header<'a>, v1::BinaryParseError>),
    V1T(Result<v1::Header<'a>, v1::ParseError>),
    V1FH(Result<v1::Header<'static>, v1::ParseError>),
    V1FA(Result<v1::Addresses, v1::ParseError>),
    V2(Result<v2::Header<'a>, v2::ParseError>),
}

impl<'a> Verdict<'a> {
    pub fn is_ok(&self) -> bool {
        match self {
            Verdict::Auto(HeaderResult::V1(r)) => r.is_ok(),
            Verdict::Auto(HeaderResult::V2(r)) => r.is_ok(),
            Verdict::V1B(r) => r.is_ok(),
            Verdict::V1T(r) => r.is_ok(),
            Verdict::V1FH(r) => r.is_ok(),
            Verdict::V1FA(r) => r.is_ok(),
            Verdict::V2(r) => r.is_ok(),
        }
    }
    /// The real `PartialResult::is_incomplete`.
    pub fn is_incomplete(&self) -> bool {
        match self {
            Verdict::Auto(r) => r.is_incomplete(),
            Verdict::V1B(r) => r.is_incomplete(),
            Verdict::V1T(r) => r.is_incomplete(),
            Verdict::V1FH(r) => r.is_incomplete(),
            Verdict::V1FA(r) => r.is_incomplete(),
            Verdict::V2(r) => r.is_incomplete(),
        }
    }
    /// The real `PartialResult::is_complete`.
    pub fn is_complete(&self) -> bool {
        match self {
            Verdict::Auto(r) => r.is_complete(),
            Verdict::V1B(r) => r.is_complete(),
            Verdict::V1T(r) => r.is_complete(),
            Verdict::V1FH(r) => r.is_complete(),
            Verdict::V1FA(r) => r.is_complete(),
            Verdict::V2(r) => r.is_complete(),
        }
    }
    /// (is_complete, is_incomplete) as reported by every `PartialResult` impl involved in this
    /// verdict: the tagged result, the `Result`, the error value and, for byte errors, the
    /// wrapped text error.
    pub fn flag_levels(&self) -> Vec<(&'static str, bool, bool)> {
        fn e1(e: &v1::ParseError, out: &mut Vec<(&'static str, bool, bool)>) {
            out.push(("v1::ParseError", e.is_complete(), e.is_incomplete()));
        }
        fn e1b(e: &v1::BinaryParseError, out: &mut Vec<(&'static str, bool, bool)>) {
            out.push(("v1::BinaryParseError", e.is_complete(), e.is_incomplete()));
            if let v1::BinaryParseError::Parse(p) = e {
                e1(p, out);
            }
        }
        fn e2(e: &v2::ParseError, out: &mut Vec<(&'static str, bool, bool)>) {
            out.push(("v2::ParseError", e.is_complete(), e.is_incomplete()));
        }
        let mut out = Vec::new();
        match self {
            Verdict::Auto(hr) => {
                out.push(("HeaderResult", hr.is_complete(), hr.is_incomplete()));
                match hr {
                    HeaderResult::V1(r) => {
                        out.push(("Result", r.is_complete(), r.is_incomplete()));
                        if let Err(e) = r {
                            e1b(e, &mut out);
                        }
                    }
                    HeaderResult::V2(r) => {
                        out.push(("Result", r.is_complete(), r.is_incomplete()));
                        if let Err(e) = r {
                            e2(e, &mut out);
                        }
                    }
                }
            }
            Verdict::V1B(r) => {
                out.push(("Result", r.is_complete(), r.is_incomplete()));
                if let Err(e) = r {
                    e1b(e, &mut out);
                }
            }
            Verdict::V1T(r) => {
                out.push(("Result", r.is_complete(), r.is_incomplete()));
                if let Err(e) = r {
                    e1(e, &mut out);
                }
            }
            Verdict::V1FH(r) => {
                out.push(("Result", r.is_complete(), r.is_incomplete()));
                if let Err(e) = r {
                    e1(e, &mut out);
                }
            }
            Verdict::V1FA(r) => {
                out.push(("Result", r.is_complete(), r.is_incomplete()));
                if let Err(e) = r {
                    e1(e, &mut out);
                }
            }
            Verdict::V2(r) => {
                out.push(("Result", r.is_complete(), r.is_incomplete()));
                if let Err(e) = r {
                    e2(e, &mut out);
                }
            }
        }
        out
    }
    /// Number of bytes the caller must remove from its buffer (None if not Ok, or
    /// for `FromStr<Addresses>` which does not report the header text).
    pub fn header_len(&self) -> Option<usize> {
        match self {
            Verdict::Auto(HeaderResult::V1(Ok(h))) => Some(h.header.len()),
            Verdict::Auto(HeaderResult::V2(Ok(h))) => Some(h.header.len()),
            Verdict::V1B(Ok(h)) => Some(h.header.len()),
            Verdict::V1T(Ok(h)) => Some(h.header.len()),
            Verdict::V1FH(Ok(h)) => Some(h.header.len()),
            Verdict::V2(Ok(h)) => Some(h.header.len()),
            _ => None,
        }
    }
    pub fn header_bytes(&self) -> Option<&[u8]> {
        match self {
            Verdict::Auto(HeaderResult::V1(Ok(h))) => Some(h.header.as_bytes()),
            Verdict::Auto(HeaderResult::V2(Ok(h))) => Some(h.header.as_ref()),
            Verdict::V1B(Ok(h)) => Some(h.header.as_bytes()),
            Verdict::V1T(Ok(h)) => Some(h.header.as_bytes()),
            Verdict::V1FH(Ok(h)) => Some(h.header.as_bytes()),
            Verdict::V2(Ok(h)) => Some(h.header.as_ref()),
            _ => None,
        }
    }
    /// Short description: "Ok(v1)", "Ok(v2)" or the error's Debug form.
    pub fn kind(&self) -> String {
        fn e1(e: &v1::ParseError) -> String {
            // drop the payloads of the Invalid* variants to keep signatures stable
            let s = format!("{:?}", e);
            match s.find('(') {
                Some(i) => s[..i].to_string(),
                None => s,
            }
        }
        fn e1b(e: &v1::BinaryParseError) -> String {
            match e {
                v1::BinaryParseError::Parse(p) => e1(p),
                v1::BinaryParseError::InvalidUtf8(_) => "InvalidUtf8".to_string(),
                // a variant this harness does not know (the tree under test may have gained one)
                #[allow(unreachable_patterns)]
                other => {
                    let s = format!("{:?}", other);
                    match s.find('(') {
                        Some(i) => s[..i].to_string(),
                        None => s,
                    }
                }
            }
        }
        match self {
            Verdict::Auto(HeaderResult::V1(Ok(_))) => "Ok(v1)".into(),
            Verdict::Auto(HeaderResult::V2(Ok(_))) => "Ok(v2)".into(),
            Verdict::Auto(HeaderResult::V1(Err(e))) => format!("V1:{}", e1b(e)),
            Verdict::Auto(HeaderResult::V2(Err(e))) => format!("V2:{:?}", e),
            Verdict::V1B(Ok(_)) | Verdict::V1T(Ok(_)) | Verdict::V1FH(Ok(_)) => "Ok(v1)".into(),
            Verdict::V1FA(Ok(_)) => "Ok(addresses)".into(),
            Verdict::V1B(Err(e)) => e1b(e),
            Verdict::V1T(Err(e)) | Verdict::V1FH(Err(e)) | Verdict::V1FA(Err(e)) => e1(e),
            Verdict::V2(Ok(_)) => "Ok(v2)".into(),
            Verdict::V2(Err(e)) => format!("{:?}", e),
        }
    }
    /// The v1 text-level error, if this verdict is a v1 error.
    pub fn v1_error(&self) -> Option<Result<&v1::ParseError, &std::str::Utf8Error>> {
        match self {
            Verdict::Auto(HeaderResult::V1(Err(e))) | Verdict::V1B(Err(e)) => match e {
                v1::BinaryParseError::Parse(p) => Some(Ok(p)),
                v1::BinaryParseError::InvalidUtf8(u) => Some(Err(u)),
                #[allow(unreachable_patterns)]
                _ => None,
            },
            Verdict::V1T(Err(e)) | Verdict::V1FH(Err(e)) | Verdict::V1FA(Err(e)) => Some(Ok(e)),
            _ => None,
        }
    }
    pub fn v1_addresses(&self) -> Option<v1::Addresses> {
        match self {
            Verdict::Auto(HeaderResult::V1(Ok(h))) => Some(h.addresses),
            Verdict::V1B(Ok(h)) => Some(h.addresses),
            Verdict::V1T(Ok(h)) => Some(h.addresses),
            Verdict::V1FH(Ok(h)) => Some(h.addresses),
            Verdict::V1FA(Ok(a)) => Some(*a),
            _ => None,
        }
    }
}

/// The longest prefix of `buf` that is valid UTF-8: what a text-mode receiver
/// hands to the `&str` entry points.
pub fn text_view(buf: &[u8]) -> &str {
    match std::str::from_utf8(buf) {
        Ok(s) => s,
        Err(e) => std::str::from_utf8(&buf[..e.valid_up_to()]).unwrap_or(""),
    }
}

/// True if `buf` contains a byte sequence that can never become valid UTF-8
/// (as opposed to a multi-byte character cut by the read boundary).
pub fn definitely_invalid_utf8(buf: &[u8]) -> bool {
    match std::str::from_utf8(buf) {
        Ok(_) => false,
        Err(e) => e.error_len().is_some(),
    }
}

/// Call the entry point on the receiver's current buffer (text entry points get
/// the valid-UTF-8 prefix). An unwind is returned as `Err`.
pub fn parse<'a>(entry: Entry, buf: &'a [u8]) -> Result<Verdict<'a>, String> {
    match entry {
        Entry::Auto => guard(|| Verdict::Auto(HeaderResult::parse(buf))),
        Entry::V1Bytes => guard(|| Verdict::V1B(v1::Header::try_from(buf))),
        Entry::V2 => guard(|| Verdict::V2(v2::Header::try_from(buf))),
        Entry::V1Text => {
            let s = text_view(buf);
            guard(|| Verdict::V1T(v1::Header::try_from(s)))
        }
        Entry::V1FromStrHeader => {
            let s = text_view(buf);
            guard(|| Verdict::V1FH(s.parse::<v1::Header<'static>>()))
        }
        Entry::V1FromStrAddr => {
            let s = text_view(buf);
            guard(|| Verdict::V1FA(s.parse::<v1::Addresses>()))
        }
    }
}

/// What the receiver of a connection that is not judged does with its buffer: the same library
/// routine as a judged receiver (entry point; on acceptance the whole TLV walk and an owned
/// copy). Everything it returns is dropped; an unwind is swallowed (other runs judge those).
pub fn neighbor_step(entry: Entry, buf: &[u8]) {
    let _ = guard(|| {
        let walk = |h: &v2::Header| {
            let mut n = 0usize;
            for item in h.tlvs() {
                n += 1;
                if item.is_err() || n > h.as_bytes().len() / 3 + 2 {
                    break;
                }
            }
            let _ = h.to_owned();
        };
        match entry {
            Entry::Auto => match HeaderResult::parse(buf) {
                HeaderResult::V2(Ok(h)) => walk(&h),
                HeaderResult::V1(Ok(h)) => {
                    let _ = h.to_owned();
                }
                _ => {}
            },
            Entry::V2 => {
                if let Ok(h) = v2::Header::try_from(buf) {
                    walk(&h)
                }
            }
            Entry::V1Bytes => {
                let _ = v1::Header::try_from(buf);
            }
            Entry::V1Text => {
                let _ = v1::Header::try_from(text_view(buf));
            }
            Entry::V1FromStrHeader => {
                let _ = text_view(buf).parse::<v1::Header<'static>>();
            }
            Entry::V1FromStrAddr => {
                let _ = text_view(buf).parse::<v1::Addresses>();
            }
        }
    });
}

/// The bytes the entry point actually looks at for this buffer.
pub fn view(entry: Entry, buf: &[u8]) -> &[u8] {
    if entry.is_text() {
        text_view(buf).as_bytes()
    } else {
        buf
    }
}

/// How the receiver sizes its reads.
#[derive(Clone, Copy, Debug, PartialEq, Eq)]
pub enum ReadSizing {
    /// ask for as much as the buffer can take
    Fill,
    /// ask for at most k bytes per read
    AtMost(usize),
}

pub struct StepInfo<'a> {
    /// index into scenario.events (usize::MAX for the implicit drain reads at the end)
    pub event_index: usize,
    pub event: Ev,
    /// receiver buffer after the event
    pub buf: &'a [u8],
    /// total stream bytes read by the receiver so far
    pub consumed_from_stream: usize,
    /// global event sequence number within the run
    pub seq: u64,
}

#[derive(Debug, Default)]
pub struct RunEnd {
    pub reads: u64,
    pub eintr: u64,
    pub ended_by: &'static str,
    pub buffer_full: bool,
    pub stream_read: usize,
}

/// Thread teardown: a thread whose own destructor-bearing thread-local was first used before its
/// first call into the library, and whose destructor calls the library once more (a connection
/// object flushed at thread exit). `library_first` reverses the order of first use. Returns a
/// description of every library call that did not return normally while the thread was being
/// torn down. The thread is joined before this returns: nothing runs concurrently.
pub fn teardown_probe(stream: &[u8], library_first: bool) -> Vec<String> {
    use std::sync::{Arc, Mutex};
    struct Flush {
        stream: Vec<u8>,
        report: Arc<Mutex<Vec<String>>>,
    }
    impl Drop for Flush {
        fn drop(&mut self) {
            for entry in Entry::ALL {
                if let Err(desc) = parse(entry, &self.stream) {
                    self.report
                        .lock()
                        .unwrap()
                        .push(format!("{} during thread teardown: {}", entry.name(), desc));
                }
            }
            let built = guard(|| {
                v2::Builder::new(0x21, 0x11)
                    .write_tlv(4u8, &[1u8, 2, 3][..])
                    .and_then(|b| b.build())
                    .map(|h| v2::Header::try_from(&h[..]).map(|h| h.tlvs().count()).unwrap_or(0))
                    .unwrap_or(0)
            });
            if let Err(desc) = built {
                self.report
                    .lock()
                    .unwrap()
                    .push(format!("builder / TLV walk during thread teardown: {}", desc));
            }
        }
    }
    thread_local! {
        static FLUSH: RefCell<Option<Flush>> = const { RefCell::new(None) };
    }
    let report = Arc::new(Mutex::new(Vec::new()));
    let r2 = report.clone();
    let bytes = stream.to_vec();
    let t = std::thread::spawn(move || {
        // the harness' own panic bookkeeping must outlive everything else on this thread
        let _ = guard(|| ());
        LAST_PANIC.with(|p| p.borrow_mut().take());
        let touch_library = |b: &[u8]| {
            for entry in Entry::ALL {
                neighbor_step(entry, b);
            }
            let _ = guard(|| v2::Builder::new(0x21, 0x11).write_payload(1u8).and_then(|b| b.build()));
        };
        if library_first {
            touch_library(&bytes);
        }
        FLUSH.with(|f| {
            *f.borrow_mut() = Some(Flush {
                stream: bytes.clone(),
                report: r2,
            })
        });
        touch_library(&bytes);
    });
    let _ = t.join();
    let v = report.lock().unwrap().clone();
    v
}

/// Calls made on behalf of somebody else between two calls of a judged receiver: a few partial
/// and complete inputs through every entry point, results dropped. With a library that keeps
/// nothing between calls this is a no-op; with one that does, it displaces whatever was
/// remembered, so that the next judged call shows whether its verdict depended on it.
pub fn perturb() {
    const INPUTS: [&[u8]; 6] = [
        b"PROXY TCP4 9.9.9.9 8.8.8.8 1 ",
        b"PROXY UNKNOWN",
        b"PROXY TCP6 ::1 ::2 7 8\r\n",
        b"\r\n\r\n\0\r\nQUIT\n\x21",
        b"\r\n\r\n\0\r\nQUIT\n\x21\x11\x00\x0f\x7f\x00\x00\x01\x7f\x00\x00\x02\x00\x50\x01\xbb\x04\x00\x00",
        b"",
    ];
    for input in INPUTS {
        for entry in Entry::ALL {
            neighbor_step(entry, input);
        }
    }
}

/// Buffer pool: the allocation is sized once for whatever it will ever hold; an earlier
/// connection (`sc.recycled`) received — and was parsed — in it behind `headroom` bytes; then the
/// buffer went back to the pool. Leaves `backing` truncated to the headroom.
pub fn recycle(backing: &mut Vec<u8>, headroom: usize, sc: &Scenario) {
    if let Some(prev) = &sc.recycled {
        backing.truncate(headroom);
        backing.reserve(sc.stream.len().max(prev.stream.len()) + 8);
        for &c in &prev.cuts {
            let c = c.min(prev.stream.len());
            backing.truncate(headroom);
            backing.extend_from_slice(&prev.stream[..c]);
            neighbor_step(prev.entry, &backing[headroom..]);
        }
        backing.truncate(headroom);
    }
}

/// The other connections handled by the judged receiver's thread (`sc.neighbors`): each has its
/// own buffer; `step` lets each receive up to its next cut point and call the library.
pub struct Others {
    state: Vec<(Vec<u8>, usize)>,
}

impl Others {
    pub fn new(sc: &Scenario) -> Others {
        Others {
            state: sc.neighbors.iter().map(|_| (Vec::new(), 0)).collect(),
        }
    }
    pub fn step(&mut self, sc: &Scenario) {
        for (n, (buf, next)) in sc.neighbors.iter().zip(self.state.iter_mut()) {
            if let Some(&c) = n.cuts.get(*next) {
                let c = c.min(n.stream.len());
                if c > buf.len() {
                    let from = buf.len();
                    buf.extend_from_slice(&n.stream[from..c]);
                }
                *next += 1;
                neighbor_step(n.entry, buf);
            }
        }
    }
}

/// Drive the receive loop over the scenario's transport events. `on_step` is
/// called after every event with the receiver's buffer; it returns `false` to
/// stop reading (the receiver has its verdict / gave up).
///
/// One read per event; bytes made available by `Deliver` that the read did not
/// take stay in the socket and are picked up by later reads; after the last
/// event the receiver drains what is left, read by read.
pub fn drive(
    sc: &Scenario,
    sizing: ReadSizing,
    mut on_step: impl FnMut(&StepInfo) -> bool,
) -> RunEnd {
    let cap = if sc.bufcap == 0 {
        usize::MAX
    } else {
        sc.bufcap
    };
    // The receiver's buffer does not start at the beginning of its allocation: a few bytes of
    // an earlier message sit in front of it (0..7, fixed per scenario), so the slice handed to
    // the parser has a varying alignment and is preceded by unrelated bytes.
    let headroom = (sc.stream.len() + 3 * sc.events.len() + sc.bufcap) % 8;
    let mut backing: Vec<u8> = vec![0x5a; headroom];
    recycle(&mut backing, headroom, sc);
    // the other connections of this event loop
    let mut others = Others::new(sc);
    let mut interleave = |others: &mut Others| others.step(sc);
    let mut available = 0usize; // bytes sitting in the socket
    let mut sent = 0usize; // bytes of sc.stream the transport has released
    let mut read = 0usize; // bytes of sc.stream the receiver has read
    let mut end = RunEnd::default();
    let mut seq = 0u64;
    let mut keep_going;

    let do_read = |buf: &mut Vec<u8>, available: &mut usize, read: &mut usize| -> usize {
        let space = cap.saturating_sub(buf.len() - headroom);
        let want = match sizing {
            ReadSizing::Fill => space,
            ReadSizing::AtMost(k) => space.min(k.max(1)),
        };
        let n = want.min(*available);
        buf.extend_from_slice(&sc.stream[*read..*read + n]);
        *read += n;
        *available -= n;
        n
    };

    // the receiver parses its empty buffer first (as a loop that parses before reading would),
    // unless the scenario says it reads first (as examples/server.rs does)
    if sc.meta("no_initial_parse") == Some(1) {
        keep_going = true;
    } else {
        interleave(&mut others);
        let info = StepInfo {
            event_index: usize::MAX,
            event: Ev::Deliver(0),
            buf: &backing[headroom..],
            consumed_from_stream: 0,
            seq,
        };
        seq += 1;
        keep_going = on_step(&info);
    }

    for (i, ev) in sc.events.iter().enumerate() {
        if !keep_going {
            break;
        }
        match *ev {
            Ev::Deliver(n) => {
                let n = n.min(sc.stream.len() - sent);
                sent += n;
                available += n;
                if backing.len() - headroom >= cap {
                    end.buffer_full = true;
                    end.ended_by = "buffer_full";
                    break;
                }
                do_read(&mut backing, &mut available, &mut read);
                end.reads += 1;
            }
            Ev::Eintr => {
                end.eintr += 1;
            }
            Ev::Stall => {
                end.ended_by = "stall";
            }
            Ev::Eof => {
                end.ended_by = "eof";
            }
            Ev::Reset => {
                end.ended_by = "reset";
            }
        }
        interleave(&mut others);
        let info = StepInfo {
            event_index: i,
            event: *ev,
            buf: &backing[headroom..],
            consumed_from_stream: read,
            seq,
        };
        seq += 1;
        keep_going = on_step(&info);
        if matches!(ev, Ev::Stall | Ev::Eof | Ev::Reset) {
            // whatever is still in the socket can be read even after the peer has gone
            break;
        }
    }
    // drain: reads continue until the socket is empty (or the buffer is full)
    while keep_going && available > 0 {
        if backing.len() - headroom >= cap {
            end.buffer_full = true;
            break;
        }
        let n = do_read(&mut backing, &mut available, &mut read);
        end.reads += 1;
        if n == 0 {
            break;
        }
        interleave(&mut others);
        let info = StepInfo {
            event_index: usize::MAX,
            event: Ev::Deliver(n),
            buf: &backing[headroom..],
            consumed_from_stream: read,
            seq,
        };
        seq += 1;
        keep_going = on_step(&info);
    }
    if end.ended_by.is_empty() {
        end.ended_by = if keep_going { "quiescent" } else { "decided" };
    }
    end.stream_read = read;
    end
}
