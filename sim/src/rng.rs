//! The only source of randomness in the simulator: splitmix64 to derive a per-run
//! seed from (VERIF_SEED, check tag, run index), xoshiro256** for the run's stream.
//! No external RNG, no clock, no hash-map iteration order anywhere on a path that
//! influences a run.

#[inline]
pub fn splitmix64(mut x: u64) -> u64 {
    x = x.wrapping_add(0x9E37_79B9_7F4A_7C15);
    let mut z = x;
    z = (z ^ (z >> 30)).wrapping_mul(0xBF58_476D_1CE4_E5B9);
    z = (z ^ (z >> 27)).wrapping_mul(0x94D0_49BB_1331_11EB);
    z ^ (z >> 31)
}

/// Seed of run `i` of the check tagged `tag` under master seed `master`.
pub fn run_seed(master: u64, tag: u64, i: u64) -> u64 {
    splitmix64(
        splitmix64(master ^ tag.wrapping_mul(0xD6E8_FEB8_6659_FD93))
            ^ i.wrapping_mul(0x9E37_79B9_7F4A_7C15),
    )
}

#[derive(Clone, Debug)]
pub struct Rng {
    s: [u64; 4],
    /// run index this stream belongs to (0 for auxiliary streams); lets generators sweep a
    /// value range systematically across a batch instead of only sampling it
    pub index: u64,
}

impl Rng {
    pub fn new(seed: u64) -> Self {
        let mut x = seed;
        let mut s = [0u64; 4];
        for v in s.iter_mut() {
            x = splitmix64(x);
            *v = x;
        }
        if s == [0; 4] {
            s[0] = 1;
        }
        Rng { s, index: 0 }
    }

    #[inline]
    pub fn next_u64(&mut self) -> u64 {
        let result = self.s[1].wrapping_mul(5).rotate_left(7).wrapping_mul(9);
        let t = self.s[1] << 17;
        self.s[2] ^= self.s[0];
        self.s[3] ^= self.s[1];
        self.s[1] ^= self.s[2];
        self.s[0] ^= self.s[3];
        self.s[2] ^= t;
        self.s[3] = self.s[3].rotate_left(45);
        result
    }

    /// Uniform in `0..n` (n > 0). Modulo bias is irrelevant here.
    #[inline]
    pub fn below(&mut self, n: usize) -> usize {
        debug_assert!(n > 0);
        (self.next_u64() % (n as u64)) as usize
    }

    /// Uniform in `lo..=hi`.
    #[inline]
    pub fn range(&mut self, lo: usize, hi: usize) -> usize {
        debug_assert!(lo <= hi);
        lo + self.below(hi - lo + 1)
    }

    /// True with probability num/den.
    #[inline]
    pub fn chance(&mut self, num: usize, den: usize) -> bool {
        self.below(den) < num
    }

    #[inline]
    pub fn byte(&mut self) -> u8 {
        (self.next_u64() >> 24) as u8
    }

    pub fn pick<'a, T>(&mut self, items: &'a [T]) -> &'a T {
        &items[self.below(items.len())]
    }

    pub fn bytes(&mut self, n: usize) -> Vec<u8> {
        let mut v = Vec::with_capacity(n);
        while v.len() + 8 <= n {
            v.extend_from_slice(&self.next_u64().to_le_bytes());
        }
        while v.len() < n {
            v.push(self.byte());
        }
        v
    }

    /// Index drawn according to integer weights.
    pub fn weighted(&mut self, weights: &[usize]) -> usize {
        let total: usize = weights.iter().sum();
        let mut x = self.below(total);
        for (i, w) in weights.iter().enumerate() {
            if x < *w {
                return i;
            }
            x -= *w;
        }
        weights.len() - 1
    }
}

/// FNV-1a, used for event-log digests and state signatures.
#[derive(Clone, Copy)]
pub struct Fnv(pub u64);

impl Default for Fnv {
    fn default() -> Self {
        Fnv(0xcbf2_9ce4_8422_2325)
    }
}

impl Fnv {
    #[inline]
    pub fn write(&mut self, bytes: &[u8]) {
        let mut h = self.0;
        for b in bytes {
            h ^= *b as u64;
            h = h.wrapping_mul(0x0000_0100_0000_01b3);
        }
        self.0 = h;
    }
    #[inline]
    pub fn write_u64(&mut self, x: u64) {
        self.write(&x.to_le_bytes());
    }
    #[inline]
    pub fn write_str(&mut self, s: &str) {
        self.write(s.as_bytes());
        self.write(&[0xff]);
    }
    pub fn finish(&self) -> u64 {
        self.0
    }
}

pub fn fnv(bytes: &[u8]) -> u64 {
    let mut f = Fnv::default();
    f.write(bytes);
    f.finish()
}
