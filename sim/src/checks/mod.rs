//! One module per claimed property. Each check flags only what its own property
//! states (oracle isolation, DESIGN.md §3.3).

use crate::engine::{shape, Check, Stats, Violation};
use crate::recv::RunEnd;
use crate::rng::Rng;
use crate::scenario::{Entry, Ev, Scenario};
use crate::transport::{self, Cfg, FaultCounts, Style};
use crate::wire::{self, Wire};

pub mod c03;
pub mod c04;
pub mod c05;
pub mod c06;
pub mod c09;
pub mod c10;
pub mod c11;
pub mod c12;
pub mod c16;
pub mod c17;
pub mod c18;
pub mod c20;

pub fn all() -> Vec<Box<dyn Check>> {
    vec![Box::new(c03::C03), Box::new(c04::C04), Box::new(c05::C05), Box::new(c06::C06), Box::new(c09::C09), Box::new(c10::C10), Box::new(c11::C11), Box::new(c12::C12), Box::new(c16::C16), Box::new(c17::C17), Box::new(c18::C18), Box::new(c20::C20)]
}

pub fn by_id(id: &str) -> Option<Box<dyn Check>> {
    all().into_iter().find(|c| c.id() == id)
}

pub fn viol(
    prop: &str,
    clause: &str,
    entry: Entry,
    input: &[u8],
    result: String,
    detail: String,
) -> Violation {
    Violation {
        prop: prop.to_string(),
        clause: clause.to_string(),
        entry: entry.name().to_string(),
        shape: shape(input),
        result,
        detail,
        focus: None,
    }
}

/// Count what the transport actually did in this run (fired, not configured).
pub fn count_transport(st: &mut Stats, sc: &Scenario, end: &RunEnd) {
    st.add("fault:reads", end.reads);
    st.add("fault:eintr", end.eintr);
    match end.ended_by {
        "stall" => st.hit("fault:stall"),
        "eof" => st.hit("fault:eof"),
        "reset" => st.hit("fault:reset"),
        "buffer_full" => st.hit("fault:buffer_full"),
        _ => {}
    }
    if end.stream_read < sc.stream.len() && end.ended_by != "decided" {
        st.hit("fault:truncated_stream");
    }
}

pub fn is_v2_stream(stream: &[u8]) -> bool {
    stream.len() >= 12 && &stream[..12] == wire::V2_SIG
}

/// Header followed by a trailer; the header is v1 (ASCII if asked) or v2.
pub struct HopStream {
    pub wire: Wire,
    pub trailer_kind: &'static str,
    pub stream: Vec<u8>,
}

pub fn gen_hop_stream(rng: &mut Rng, ascii_v1: bool, big_ok: bool, v2_share_pct: usize) -> HopStream {
    let wire = if rng.below(100) < v2_share_pct {
        wire::gen_v2(rng, big_ok).0
    } else {
        wire::gen_v1(rng, ascii_v1)
    };
    let (trailer, trailer_kind) = wire::gen_trailer(rng, &wire);
    let mut stream = wire.bytes.clone();
    stream.extend_from_slice(&trailer);
    HopStream {
        wire,
        trailer_kind,
        stream,
    }
}

/// A random transport schedule for a hop stream.
pub fn gen_schedule(
    rng: &mut Rng,
    stream_len: usize,
    header_len: usize,
    hot: &[usize],
    eintr_pct: usize,
) -> Vec<Ev> {
    let mut fc = FaultCounts::default();
    let cfg = Cfg {
        style: transport::pick_style(rng),
        eintr_pct,
        end: transport::pick_end(rng),
        cut_at: None,
    };
    transport::schedule(rng, stream_len, header_len, hot, cfg, &mut fc)
}

pub fn gen_schedule_style(
    rng: &mut Rng,
    stream_len: usize,
    header_len: usize,
    hot: &[usize],
    style: Style,
    eintr_pct: usize,
    end: Ev,
    cut_at: Option<usize>,
) -> Vec<Ev> {
    let mut fc = FaultCounts::default();
    let cfg = Cfg {
        style,
        eintr_pct,
        end,
        cut_at,
    };
    transport::schedule(rng, stream_len, header_len, hot, cfg, &mut fc)
}

pub fn pick_bufcap(rng: &mut Rng) -> usize {
    *rng.pick(&[0usize, 0, 0, 107, 108, 232, 512, 65551])
}

/// Which element of an accepted v1 line the byte at `pos` belongs to.
pub fn v1_class_at(header: &[u8], pos: usize) -> &'static str {
    // header is "PROXY <proto>[ fields...]\r\n"
    if pos >= header.len() {
        return "v1:end";
    }
    let b = header[pos];
    if b == b'\r' {
        return "v1:cr";
    }
    if b == b'\n' && pos + 1 == header.len() {
        return "v1:lf";
    }
    // count the spaces before pos
    let spaces = header[..pos].iter().filter(|c| **c == b' ').count();
    let unknown = header.starts_with(b"PROXY UNKNOWN");
    if b == b' ' {
        return match spaces {
            0 => "v1:sp1",
            1 => "v1:sp2",
            _ if unknown => "v1:free",
            2 => "v1:sp3",
            3 => "v1:sp4",
            4 => "v1:sp5",
            _ => "v1:free",
        };
    }
    match spaces {
        0 => "v1:keyword",
        1 => "v1:proto",
        _ if unknown => "v1:free",
        2 => "v1:src_addr",
        3 => "v1:dst_addr",
        4 => "v1:src_port",
        5 => "v1:dst_port",
        _ => "v1:free",
    }
}

/// Which part of an accepted v2 header the byte at `pos` belongs to.
pub fn v2_class_at(header: &[u8], pos: usize) -> &'static str {
    if pos >= header.len() {
        return "v2:end";
    }
    match pos {
        0..=11 => "v2:sig",
        12 => "v2:ver_cmd",
        13 => "v2:fam_proto",
        14 => "v2:len_hi",
        15 => "v2:len_lo",
        _ => {
            let fam = (header[13] >> 4) as usize;
            let fsize = if fam == 0 {
                header.len() - 16
            } else if fam < 4 {
                wire::FAMILY_SIZE[fam]
            } else {
                0
            };
            if pos < 16 + fsize {
                "v2:addr"
            } else {
                "v2:tlvs"
            }
        }
    }
}
