//! One module per claimed property. Each check flags only what its own property
//! states (oracle isolation, DESIGN.md §3.3).

use crate::engine::{shape, Check, Stats, Violation};
use crate::recv::RunEnd;
use crate::rng::Rng;
use crate::scenario::{Entry, Ev, Scenario};
use crate::transport::{self, Cfg, FaultCounts, Style};
use crate::wire::{self, Wire};

pub mod c03;
pub mod c04;
pub mod c05;
pub mod c06;
pub mod c09;
pub mod c10;
pub mod c11;
pub mod c12;
pub mod c16;
pub mod c17;
pub mod c18;
pub mod c20;

pub fn all() -> Vec<Box<dyn Check>> {
    vec![Box::new(c03::C03), Box::new(c04::C04), Box::new(c05::C05), Box::new(c06::C06), Box::new(c09::C09), Box::new(c10::C10), Box::new(c11::C11), Box::new(c12::C12), Box::new(c16::C16), Box::new(c17::C17), Box::new(c18::C18), Box::new(c20::C20)]
}

pub fn by_id(id: &str) -> Option<Box<dyn Check>> {
    all().into_iter().find(|c| c.id() == id)
}

pub fn viol(
    prop: &str,
    clause: &str,
    entry: Entry,
    input: &[u8],
    result: String,
    detail: String,
) -> Violation {
    Violation {
        prop: prop.to_string(),
        clause: clause.to_string(),
        entry: entry.name().to_string(),
        shape: shape(input),
        result,
        detail,
        focus: None,
    }
}

/// Count what the transport actually did in this run (fired, not configured).
pub fn count_transport(st: &mut Stats, sc: &Scenario, end: &RunEnd) {
    if sc.recycled.is_some() {
        st.hit("fault:recycled_buffer");
        if sc.meta("no_initial_parse") == Some(1) {
            st.hit("fault:read_before_first_parse");
        }
    }
    if !sc.neighbors.is_empty() {
        st.hit("fault:interleaved_neighbours");
        st.add(
            "fault:neighbour_steps",
            sc.neighbors.iter().map(|n| n.cuts.len() as u64).sum(),
        );
    }
    st.add("fault:reads", end.reads);
    st.add("fault:eintr", end.eintr);
    match end.ended_by {
        "stall" => st.hit("fault:stall"),
        "eof" => st.hit("fault:eof"),
        "reset" => st.hit("fault:reset"),
        "buffer_full" => st.hit("fault:buffer_full"),
        _ => {}
    }
    if end.stream_read < sc.stream.len() && end.ended_by != "decided" {
        st.hit("fault:truncated_stream");
    }
}

pub fn is_v2_stream(stream: &[u8]) -> bool {
    stream.len() >= 12 && &stream[..12] == wire::V2_SIG
}

/// Header followed by a trailer; the header is v1 (ASCII if asked) or v2.
pub struct HopStream {
    pub wire: Wire,
    pub trailer_kind: &'static str,
    pub stream: Vec<u8>,
}

pub fn gen_hop_stream(rng: &mut Rng, ascii_v1: bool, big_ok: bool, v2_share_pct: usize) -> HopStream {
    let wire = if rng.below(100) < v2_share_pct {
        wire::gen_v2(rng, big_ok).0
    } else {
        wire::gen_v1(rng, ascii_v1)
    };
    let (trailer, trailer_kind) = wire::gen_trailer(rng, &wire);
    let mut stream = wire.bytes.clone();
    stream.extend_from_slice(&trailer);
    HopStream {
        wire,
        trailer_kind,
        stream,
    }
}

/// A random transport schedule for a hop stream.
pub fn gen_schedule(
    rng: &mut Rng,
    stream_len: usize,
    header_len: usize,
    hot: &[usize],
    eintr_pct: usize,
) -> Vec<Ev> {
    let mut fc = FaultCounts::default();
    let cfg = Cfg {
        style: transport::pick_style(rng),
        eintr_pct,
        end: transport::pick_end(rng),
        cut_at: None,
    };
    transport::schedule(rng, stream_len, header_len, hot, cfg, &mut fc)
}

pub fn gen_schedule_style(
    rng: &mut Rng,
    stream_len: usize,
    header_len: usize,
    hot: &[usize],
    style: Style,
    eintr_pct: usize,
    end: Ev,
    cut_at: Option<usize>,
) -> Vec<Ev> {
    let mut fc = FaultCounts::default();
    let cfg = Cfg {
        style,
        eintr_pct,
        end,
        cut_at,
    };
    transport::schedule(rng, stream_len, header_len, hot, cfg, &mut fc)
}

pub fn pick_bufcap(rng: &mut Rng) -> usize {
    *rng.pick(&[0usize, 0, 0, 107, 108, 232, 512, 65551])
}

/// Which element of an accepted v1 line the byte at `pos` belongs to.
pub fn v1_class_at(header: &[u8], pos: usize) -> &'static str {
    // header is "PROXY <proto>[ fields...]\r\n"
    if pos >= header.len() {
        return "v1:end";
    }
    let b = header[pos];
    if b == b'\r' {
        return "v1:cr";
    }
    if b == b'\n' && pos + 1 == header.len() {
        return "v1:lf";
    }
    // count the spaces before pos
    let spaces = header[..pos].iter().filter(|c| **c == b' ').count();
    let unknown = header.starts_with(b"PROXY UNKNOWN");
    if b == b' ' {
        return match spaces {
            0 => "v1:sp1",
            1 => "v1:sp2",
            _ if unknown => "v1:free",
            2 => "v1:sp3",
            3 => "v1:sp4",
            4 => "v1:sp5",
            _ => "v1:free",
        };
    }
    match spaces {
        0 => "v1:keyword",
        1 => "v1:proto",
        _ if unknown => "v1:free",
        2 => "v1:src_addr",
        3 => "v1:dst_addr",
        4 => "v1:src_port",
        5 => "v1:dst_port",
        _ => "v1:free",
    }
}

/// Which part of an accepted v2 header the byte at `pos` belongs to.
pub fn v2_class_at(header: &[u8], pos: usize) -> &'static str {
    if pos >= header.len() {
        return "v2:end";
    }
    match pos {
        0..=11 => "v2:sig",
        12 => "v2:ver_cmd",
        13 => "v2:fam_proto",
        14 => "v2:len_hi",
        15 => "v2:len_lo",
        _ => {
            let fam = (header[13] >> 4) as usize;
            let fsize = if fam == 0 {
                header.len() - 16
            } else if fam < 4 {
                wire::FAMILY_SIZE[fam]
            } else {
                0
            };
            if pos < 16 + fsize {
                "v2:addr"
            } else {
                "v2:tlvs"
            }
        }
    }
}


// ------------------------------------------------------------ interference ---

/// The same v2 header with its TLV area laid out differently (same total length): what a
/// recycled buffer held for the previous connection when only the TLVs differ.
fn relayout_v2(rng: &mut Rng, judged: &[u8]) -> Option<Vec<u8>> {
    if !is_v2_stream(judged) || judged.len() < 16 {
        return None;
    }
    let fam = (judged[13] >> 4) as usize;
    let declared = u16::from_be_bytes([judged[14], judged[15]]) as usize;
    let fsize = if fam < 4 { wire::FAMILY_SIZE[fam] } else { 0 };
    let end = (16 + declared).min(judged.len());
    let start = (16 + fsize).min(end);
    let n = end - start;
    if n < 3 {
        return None;
    }
    let mut out = judged.to_vec();
    relayout_section(rng, &mut out[start..end]);
    Some(out)
}

/// Lay a TLV area of at least three bytes out differently, in place.
pub fn relayout_section(rng: &mut Rng, sec: &mut [u8]) {
    let n = sec.len();
    if n < 3 {
        return;
    }
    match rng.below(4) {
        0 => {
            // one TLV spanning the whole area
            sec[0] = rng.byte();
            sec[1..3].copy_from_slice(&((n - 3).min(65535) as u16).to_be_bytes());
        }
        1 => {
            // empty TLVs back to back
            for (i, b) in sec.iter_mut().enumerate() {
                *b = if i % 3 == 0 { 4 } else { 0 };
            }
        }
        2 => {
            // the first TLV one byte longer / shorter: every later boundary moves
            let l = u16::from_be_bytes([sec[1], sec[2]]);
            let l2 = if rng.chance(1, 2) { l.wrapping_add(1) } else { l.wrapping_sub(1) };
            sec[1..3].copy_from_slice(&l2.to_be_bytes());
        }
        _ => {
            let noise = rng.bytes(n);
            sec.copy_from_slice(&noise);
        }
    }
}

/// Bytes of some other connection, related or unrelated to the judged stream.
fn other_stream(rng: &mut Rng, judged: &[u8]) -> Vec<u8> {
    match rng.below(8) {
        0 => {
            // a text line that never got its CR: what a slow or abandoned peer leaves behind
            let w = wire::gen_v1(rng, false);
            let mut b = w.bytes;
            if let Some(p) = b.iter().position(|c| *c == b'\r') {
                b.truncate(p);
            }
            b
        }
        1 => gen_hop_stream(rng, false, false, 50).stream,
        2 => {
            // the judged stream without its first CR: a longer CR-free run at the same place
            let mut b = judged.to_vec();
            if let Some(p) = b.iter().position(|c| *c == b'\r') {
                if p >= 12 {
                    b.remove(p);
                }
            }
            b
        }
        3 | 4 => match relayout_v2(rng, judged) {
            Some(b) => b,
            None => {
                // same length, one byte in the second half different
                let mut b = judged.to_vec();
                if b.len() > 1 {
                    let i = rng.range(b.len() / 2, b.len() - 1);
                    b[i] = b[i].wrapping_add(1 + rng.below(255) as u8);
                }
                b
            }
        },
        5 => wire::gen_v2(rng, false).0.bytes,
        6 => {
            // same length, same first 16 bytes, the rest noise
            let mut b = judged.to_vec();
            let keep = 16.min(b.len());
            let noise = rng.bytes(b.len() - keep);
            b[keep..].copy_from_slice(&noise);
            b
        }
        _ => {
            // a partial text line, as long as or longer than the judged header
            let mut b = b"PROXY TCP6 ".to_vec();
            b.extend(std::iter::repeat(b'f').take(rng.range(0, 90)));
            b
        }
    }
}

fn cuts_for(rng: &mut Rng, len: usize, max: usize, complete: bool) -> Vec<usize> {
    let mut cuts: Vec<usize> = Vec::new();
    let n = rng.range(1, max.max(1));
    let last = if complete || len == 0 { len } else { rng.range(len / 2, len) };
    for _ in 0..n - 1 {
        cuts.push(rng.range(0, last));
    }
    cuts.sort_unstable();
    cuts.push(last);
    cuts
}

/// Other connections on the judged receiver's thread (one run in five, keyed on the run index
/// and drawn from a stream of its own, so that the scenario proper is what it was without
/// them): the receive buffer comes from a pool and was used — and parsed in — by a previous
/// connection; up to two neighbours have their receive steps interleaved with the judged
/// connection's. With a library that keeps nothing between calls this changes no verdict.
pub fn add_interference(sc: &mut Scenario, index: u64) {
    if index % 5 != 3 || sc.ctor.is_some() || sc.stream.is_empty() {
        return;
    }
    let mut rng = Rng::new(
        crate::rng::splitmix64(sc.aux ^ crate::rng::fnv(&sc.stream) ^ index.wrapping_mul(0x9E37_79B9_7F4A_7C15) ^ 0xC0FFEE),
    );
    let judged = sc.stream.clone();
    let entry_for = |rng: &mut Rng, own: Entry| -> Entry {
        if rng.chance(2, 3) {
            own
        } else {
            *rng.pick(&Entry::ALL)
        }
    };
    if sc.sub == "raw_section" {
        // a raw TLV section handed to the iterator: the same memory held another section of the
        // same size a moment ago
        let mut prev = judged.clone();
        relayout_section(&mut rng, &mut prev);
        let n = prev.len();
        sc.recycled = Some(crate::scenario::Neighbor {
            entry: Entry::V2,
            stream: prev,
            cuts: vec![n],
        });
        return;
    }
    let kind = rng.below(3);
    if kind != 1 {
        let stream = other_stream(&mut rng, &judged);
        let complete = rng.chance(1, 2);
        let cuts = cuts_for(&mut rng, stream.len(), 4, complete);
        sc.recycled = Some(crate::scenario::Neighbor {
            entry: entry_for(&mut rng, sc.entry),
            stream,
            cuts,
        });
        if rng.chance(1, 2) {
            sc.set_meta("no_initial_parse", 1);
        }
    }
    if kind != 0 {
        for _ in 0..rng.range(1, 2) {
            let stream = other_stream(&mut rng, &judged);
            let complete = rng.chance(1, 3);
            let cuts = cuts_for(&mut rng, stream.len(), 12, complete);
            sc.neighbors.push(crate::scenario::Neighbor {
                entry: entry_for(&mut rng, sc.entry),
                stream,
                cuts,
            });
        }
    }
}
