//! C06 — version auto-detection agrees with the two dedicated parsers.
//! A differential between three real entry points, evaluated at every receiver
//! state the hop simulation walks through (the simulator contributes the state
//! space — every prefix of signatures, headers and mixed streams — not the oracle).

use super::*;
use crate::engine::Tier;
use crate::faults;
use crate::recv::{drive, guard, ReadSizing};
use crate::rng::fnv;
use crate::scenario::printable;
use crate::transport::Style;
use ppp::{v1, v2, HeaderResult, PartialResult};
use serde_json::json;

pub struct C06;

const SIGP: [&str; 13] = [
    "probe:sig_prefix_0",
    "probe:sig_prefix_1",
    "probe:sig_prefix_2",
    "probe:sig_prefix_3",
    "probe:sig_prefix_4",
    "probe:sig_prefix_5",
    "probe:sig_prefix_6",
    "probe:sig_prefix_7",
    "probe:sig_prefix_8",
    "probe:sig_prefix_9",
    "probe:sig_prefix_10",
    "probe:sig_prefix_11",
    "probe:sig_prefix_12",
];

impl Check for C06 {
    fn id(&self) -> &'static str {
        "C06"
    }
    fn runs(&self, tier: Tier) -> u64 {
        match tier {
            Tier::Quick => 600_000,
            Tier::Thorough => 100_000_000,
        }
    }
    fn generate(&self, rng: &mut Rng, _index: u64, _tier: Tier) -> Scenario {
        let mut sc = Scenario::new("C06", "random");
        let mut hlen = 0;
        let mut hot = Vec::new();
        let stream = match rng.below(20) {
            0..=7 => {
                let hs = gen_hop_stream(rng, false, true, 50);
                sc.sub = "well_formed".into();
                hlen = hs.wire.bytes.len();
                hot = hs.wire.hot_cuts();
                hs.stream
            }
            8..=12 => {
                let (s, kind) = faults::splice(rng);
                sc.sub = "splice".into();
                sc.set_tag("fault", kind);
                s
            }
            13..=16 => {
                let (s, kind) = wire::gen_junk(rng);
                sc.sub = "junk_peer".into();
                sc.set_tag("fault", kind);
                s
            }
            _ => {
                let hs = gen_hop_stream(rng, false, false, 50);
                sc.sub = "corrupt".into();
                hlen = hs.wire.bytes.len();
                let mut s = hs.stream;
                let k = faults::corrupt(rng, &mut s, hlen);
                sc.set_tag("fault", k);
                s
            }
        };
        if hlen == 0 {
            hlen = stream.len();
        }
        sc.intended_header_len = hlen;
        let style = *rng.pick(&[
            Style::ByteAtATime,
            Style::ByteAtATime,
            Style::Random,
            Style::Hot,
            Style::Whole,
        ]);
        let end = transport::pick_end(rng);
        sc.events = gen_schedule_style(rng, stream.len(), hlen, &hot, style, 3, end, None);
        sc.stream = stream;
        sc
    }

    fn execute(&self, sc: &Scenario, st: &mut Stats) -> Vec<Violation> {
        let mut out: Vec<Violation> = Vec::new();
        if let Some(f) = sc.tag("fault") {
            st.hit_dyn(format!("fault:{}", f));
        }
        st.distinct(fnv(&sc.stream));
        let mut last_len = usize::MAX;
        let end = drive(sc, ReadSizing::Fill, |step| {
            let b = step.buf;
            if b.len() == last_len {
                return true;
            }
            last_len = b.len();
            // reach probes count states visited, whatever the library then does with them
            if b.len() <= 12 && wire::V2_SIG.starts_with(b) {
                st.hit(SIGP[b.len()]);
            }
            let a = guard(|| HeaderResult::parse(b));
            let r2 = guard(|| v2::Header::try_from(b));
            let r1 = guard(|| v1::Header::try_from(b));
            let (a, r2, r1) = match (a, r2, r1) {
                (Ok(a), Ok(r2), Ok(r1)) => (a, r2, r1),
                _ => {
                    st.hit("skip:panic");
                    return true;
                }
            };
            st.oracle_evals += 1;
            st.log(
                "state",
                b.len() as u64,
                (a.is_incomplete() as u64) | ((r2.is_ok() as u64) << 1) | ((r1.is_ok() as u64) << 2),
            );
            let a_ok = matches!(&a, HeaderResult::V1(Ok(_)) | HeaderResult::V2(Ok(_)));
            let mut fail: Option<(&'static str, String)> = None;
            // The oracle is the property's statement, clause by clause, and nothing more: in
            // particular it does not say which tag or variant a *terminal* error carries, nor
            // that an incomplete error must be the v2 parser's own value.
            if r2.is_ok() && r1.is_ok() {
                fail = Some((
                    "both_parsers_accept",
                    "v1 and v2 both accept the same input".into(),
                ));
            } else if a_ok != (r2.is_ok() || r1.is_ok()) {
                fail = Some((
                    "accept_iff",
                    format!(
                        "auto accepts: {}, v2 accepts: {}, v1 accepts: {}",
                        a_ok,
                        r2.is_ok(),
                        r1.is_ok()
                    ),
                ));
            } else if r2.is_ok() {
                st.hit("probe:v2_accept");
                match &a {
                    HeaderResult::V2(x) if *x == r2 => {}
                    _ => {
                        fail = Some((
                            "v2_header_not_returned_unchanged",
                            "v2 accepts but auto does not return V2 with the same header".into(),
                        ))
                    }
                }
            } else if r1.is_ok() {
                st.hit("probe:v1_accept");
                match &a {
                    HeaderResult::V1(x) if *x == r1 => {}
                    _ => {
                        fail = Some((
                            "v1_header_not_returned_unchanged",
                            "v1 accepts but auto does not return V1 with the same header".into(),
                        ))
                    }
                }
            } else {
                // nobody accepts: incomplete exactly when v2 is incomplete, or v2 is terminal
                // and v1 is incomplete; otherwise terminal
                let want_incomplete = r2.is_incomplete() || r1.is_incomplete();
                if r2.is_incomplete() {
                    st.hit("probe:v2_incomplete");
                } else if r1.is_incomplete() {
                    st.hit("probe:fallthrough_v1_incomplete");
                } else {
                    st.hit("probe:fallthrough_v1_terminal");
                }
                if a.is_incomplete() != want_incomplete {
                    fail = Some((
                        if want_incomplete {
                            "terminal_where_incomplete_expected"
                        } else {
                            "incomplete_where_terminal_expected"
                        },
                        format!(
                            "v2 says {:?}, v1 says {}, auto says {} (incomplete: {})",
                            r2.as_ref().err(),
                            match &r1 {
                                Ok(_) => "Ok".to_string(),
                                Err(e) => format!("{:?}", e),
                            },
                            describe(&a),
                            a.is_incomplete()
                        ),
                    ));
                } else if r2.is_incomplete() && matches!(&a, HeaderResult::V1(_)) {
                    // still a possible v2 header: the verdict must not be the text parser's
                    fail = Some((
                        "possible_v2_handed_to_text_parser",
                        format!(
                            "v2 reports {:?} (incomplete) but auto answers with the text parser's {}",
                            r2.as_ref().err(),
                            describe(&a)
                        ),
                    ));
                }
            }
            // completeness flags of the tagged result must be those of the inner result
            if fail.is_none() && a.is_complete() == a.is_incomplete() {
                fail = Some(("flags_not_negation", "is_complete == is_incomplete".into()));
            }
            if let Some((clause, detail)) = fail {
                out.push(viol(
                    "C06",
                    clause,
                    Entry::Auto,
                    b,
                    describe(&a),
                    format!("input {:?}: {}", printable(b, 140), detail),
                ));
                return false;
            }
            true
        });
        count_transport(st, sc, &end);
        match sc.tag("fault") {
            Some("splice_sig_then_text") => st.hit("probe:v2_sig_then_text"),
            Some("splice_text_then_v2") => st.hit("probe:text_then_v2"),
            _ => {}
        }
        out
    }

    fn interference(&self) -> bool {
        true
    }
    fn required_probes(&self, _tier: Tier) -> Vec<&'static str> {
        let mut v: Vec<&'static str> = SIGP.to_vec();
        v.extend([
            "probe:v2_sig_then_text",
            "probe:text_then_v2",
            "probe:v1_accept",
            "probe:v2_accept",
            "probe:v2_incomplete",
            "probe:fallthrough_v1_incomplete",
            "probe:fallthrough_v1_terminal",
        ]);
        v
    }
    fn rule(&self) -> String {
        "one run = one stream (well-formed v1/v2 header ++ trailer, splice of two headers / signature prefix + text / text + v2 header, junk peer, or a corrupted header) under a seeded schedule biased to one byte per read; at every distinct receiver buffer the three real results HeaderResult::parse, v2::Header::try_from and v1::Header::try_from are compared as the property states. Distinct by stream hash; every run is non-trivial (each judges at least the empty buffer).".into()
    }
    fn real_vs_stub(&self) -> serde_json::Value {
        json!({
            "real": ["HeaderResult::parse", "v2::Header::try_from", "v1::Header::try_from(&[u8])", "PartialResult on all three", "PartialEq between them"],
            "stub": ["transport, splice / junk / corruption generators, observing receiver"],
            "note": "weak fit for simulation: the oracle is a point-wise differential; the simulator supplies the receiver states"
        })
    }
    fn assumptions(&self) -> Vec<String> {
        vec!["all three verdicts come from the tree under test; the check says nothing about whether either dedicated parser is itself right".into()]
    }
}

fn describe(a: &HeaderResult) -> String {
    match a {
        HeaderResult::V1(Ok(_)) => "V1(Ok)".into(),
        HeaderResult::V2(Ok(_)) => "V2(Ok)".into(),
        HeaderResult::V1(Err(e)) => {
            let s = format!("{:?}", e);
            format!("V1({})", s.split('(').take(2).collect::<Vec<_>>().join("("))
        }
        HeaderResult::V2(Err(e)) => format!("V2({:?})", e),
    }
}
