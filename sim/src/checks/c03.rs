//! C03 — parsing, accessors, formatting, owned copies and TLV iteration never
//! panic or hang, on any input, in builds with and without overflow checks.
//! The hop simulation with every fault kind; monitors: catch_unwind around each
//! library call, the n/3+1 bound on TLV iteration, and the engine's watchdog.

use super::*;
use crate::engine::Tier;
use crate::faults;
use crate::recv::{drive, guard, panic_site, parse, view, ReadSizing, Verdict};
use crate::rng::fnv;
use crate::scenario::printable;
use crate::transport::{self, Cfg, FaultCounts};
use ppp::{v1, v2, HeaderResult, PartialResult};
use serde_json::json;
use std::error::Error;

pub struct C03;

/// Directed dense sections: more items than fit a u16 counter (200 000 zero bytes are 66 666
/// empty TLVs; the second form alternates types).
fn dense_section(kind: u64) -> Vec<u8> {
    if kind == 2 {
        // a full-size accepted header whose TLV area is 21 841 empty NoOp TLVs
        let mut v = crate::wire::V2_SIG.to_vec();
        v.extend_from_slice(&[0x21, 0x11, 0xff, 0xff]);
        v.extend_from_slice(&[127, 0, 0, 1, 127, 0, 0, 2, 0, 80, 1, 187]);
        while v.len() + 3 <= 16 + 65535 {
            v.extend_from_slice(&[0x04, 0, 0]);
        }
        return v;
    }
    let mut v = vec![0u8; 200_001];
    if kind == 1 {
        for (i, b) in v.iter_mut().enumerate() {
            if i % 3 == 0 {
                *b = (i / 3) as u8;
            }
        }
    }
    v
}

const DIRECTED: &[(&[u8], Entry)] = &[
    (b"PROXY UNKNOWN\r\n", Entry::V1Text),
    (b"PROXY TCP4 1.2.3.4 5.6.7.8 80 443\r\n", Entry::V1FromStrHeader),
    (b"PROXY UNKNOWN\r", Entry::V1Text),
    (b"\r\n\r\n\0\r\nQUIT\n\x21\x11\x00\x0c\x7f\x00\x00\x01\x7f\x00\x00\x02\x00\x50\x01\xbb", Entry::V2),
    (b"\r\n\r\n\0\r\nQUIT\n\x21\x00\x00\x05\x04\x00\x09ab", Entry::Auto),
    (b"", Entry::Auto),
];

/// Iterate a TLV section; Err(items) if it yields more than n/3 + 1 items.
fn walk_tlvs(it: v2::TypeLengthValues<'_>) -> Result<usize, usize> {
    // a copy that is never advanced: what it reports is the section as handed over (a tree may
    // legitimately make the accessors of a *consumed* iterator describe the remainder)
    let original = it;
    let n = original.as_bytes().len();
    let bound = n / 3 + 1;
    let _ = it.len();
    let _ = it.is_empty();
    let mut count = 0usize;
    let mut it = it;
    loop {
        match it.next() {
            None => break,
            Some(item) => {
                count += 1;
                match item {
                    Ok(tlv) => {
                        let _ = tlv.len();
                        let _ = tlv.is_empty();
                        let o = tlv.to_owned();
                        let _ = o == tlv;
                        let _ = format!("{:?}", o.kind);
                        // Debug of the item itself (derived today, hand-written tomorrow)
                        // (large values: one in eight, chosen by content, to bound the cost)
                        if count <= 64
                            && (tlv.len() <= 2048 || crate::rng::fnv(&tlv.value[..64]) % 8 == 0)
                        {
                            let _ = format!("{:?}", tlv).len();
                            if tlv.len() <= 2048 {
                                let _ = format!("{:#?}", o).len();
                            }
                        }
                    }
                    Err(e) => {
                        let _ = e.to_string();
                        let _ = format!("{:?}", e);
                        let _ = e.is_incomplete();
                    }
                }
                if count > bound + 1 {
                    return Err(count);
                }
            }
        }
    }
    // the iterator must stay exhausted
    for _ in 0..3 {
        if it.next().is_some() {
            count += 1;
        }
    }
    // the rest of the Iterator interface, on fresh copies and on the exhausted one: these must
    // return normally too (what they return is C11's business)
    let fresh = original;
    for k in [0usize, 1, 2, 3, 7] {
        let mut c = fresh;
        let _ = c.nth(k);
        let _ = c.next();
        let _ = c.len();
        let mut c = fresh;
        let _ = c.next();
        let _ = c.nth(k);
        let _ = fresh.skip(k).take(4).count();
        let _ = fresh.step_by(k + 1).take(4).count();
    }
    let _ = fresh.size_hint();
    let dense = n >= 6 && original.as_bytes()[1..3] == [0, 0] && original.as_bytes()[4..6] == [0, 0];
    if n <= 2048 || dense {
        // called on the iterator itself, not through an adaptor, so that an override of these
        // methods is what runs (a non-terminating one is the watchdog's business)
        let _ = fresh.count();
        let _ = fresh.last();
        let _ = fresh.fold(0usize, |a, x| a + x.map(|t| t.len()).unwrap_or(0));
        let _ = fresh.take(bound + 2).count();
        let mut half = fresh;
        let _ = half.nth(3);
        let _ = half.count();
        let _ = half.last();
    }
    let _ = it.nth(1);
    let _ = it.len();
    let _ = it.is_empty();
    let _ = it.size_hint();
    if n <= 256 {
        let _ = format!("{:?}", it).len();
    }
    if count > bound {
        Err(count)
    } else {
        Ok(count)
    }
}

/// Display with explicit width / precision / fill, as a caller's format string may ask for.
fn format_variants<T: std::fmt::Display + std::fmt::Debug>(x: &T, natural_len: usize) {
    for p in [0usize, 1, 2, 5, 13, 14, 15, 16, 17, 18, 19, 20, 24, 31, 32, 33, 64, 106, 107, 300] {
        let _ = format!("{:.*}", p, x);
        if p <= natural_len + 3 {
            let _ = format!("{:>w$.p$}", x, w = p + 2, p = p);
        }
    }
    let _ = format!("{:^40}", x);
    let _ = format!("{:<4}", x);
    let _ = format!("{:#?}", x);
    let _ = format!("{:#}", x);
    let _ = format!("{:+}", x);
    let _ = format!("{:08}", x);
}

fn exercise_v1(h: &v1::Header<'_>) {
    let _ = h.protocol();
    let _ = h.addresses_str();
    let o = h.to_owned();
    let _ = o == *h;
    let _ = o.protocol();
    let _ = o.addresses_str();
    let _ = format!("{}", h);
    let _ = format!("{:?}", h);
    let c = h.clone();
    let _ = c == *h;
    let _ = h.addresses.to_string();
    let _ = h.addresses.protocol();
    format_variants(h, h.header.len());
    format_variants(&o, h.header.len());
    format_variants(&h.addresses, 60);
}

fn exercise_v2(h: &v2::Header<'_>) -> Result<usize, usize> {
    let _ = h.length();
    let _ = h.len();
    let _ = h.is_empty();
    let fam = h.address_family();
    let _ = fam.byte_length();
    let _ = u16::from(fam);
    let _ = h.addresses.len();
    let _ = h.addresses.is_empty();
    let _ = h.address_bytes();
    let _ = h.tlv_bytes();
    let _ = h.as_bytes();
    let o = h.to_owned();
    let _ = o == *h;
    let _ = o.tlv_bytes();
    let _ = format!("{}", h);
    if h.len() <= 4096 {
        let _ = format!("{:?}", h);
    }
    if h.len() <= 256 {
        format_variants(h, 40);
    }
    let r = walk_tlvs(h.tlvs());
    let _ = walk_tlvs(o.tlvs());
    r
}

fn exercise_err1(e: &v1::ParseError) {
    let _ = e.to_string();
    let _ = format!("{:?}", e);
    let _ = e.source().map(|s| s.to_string());
    let _ = e.is_incomplete();
    let _ = e.is_complete();
}

fn exercise_err1b(e: &v1::BinaryParseError) {
    let _ = e.to_string();
    let _ = format!("{:?}", e);
    let _ = e.source().map(|s| s.to_string());
    let _ = e.is_incomplete();
    let _ = e.is_complete();
    if let v1::BinaryParseError::Parse(p) = e {
        exercise_err1(p);
    }
}

fn exercise_err2(e: &v2::ParseError) {
    let _ = e.to_string();
    let _ = format!("{:?}", e);
    let _ = e.source().map(|s| s.to_string());
    let _ = e.is_incomplete();
    let _ = e.is_complete();
}

/// Call every public function reachable from a verdict. Returns the TLV bound result.
fn exercise(v: &Verdict<'_>) -> Result<usize, usize> {
    let _ = v.is_complete();
    let _ = v.is_incomplete();
    match v {
        Verdict::Auto(hr) => {
            let _ = format!("{:?}", hr.is_complete());
            match hr {
                HeaderResult::V1(Ok(h)) => exercise_v1(h),
                HeaderResult::V1(Err(e)) => exercise_err1b(e),
                HeaderResult::V2(Ok(h)) => return exercise_v2(h),
                HeaderResult::V2(Err(e)) => exercise_err2(e),
            }
        }
        Verdict::V1B(Ok(h)) => exercise_v1(h),
        Verdict::V1B(Err(e)) => exercise_err1b(e),
        Verdict::V1T(Ok(h)) => exercise_v1(h),
        Verdict::V1FH(Ok(h)) => exercise_v1(h),
        Verdict::V1T(Err(e)) | Verdict::V1FH(Err(e)) | Verdict::V1FA(Err(e)) => exercise_err1(e),
        Verdict::V1FA(Ok(a)) => {
            let _ = a.to_string();
            let _ = a.protocol();
        }
        Verdict::V2(Ok(h)) => return exercise_v2(h),
        Verdict::V2(Err(e)) => exercise_err2(e),
    }
    Ok(0)
}

impl Check for C03 {
    fn id(&self) -> &'static str {
        "C03"
    }
    fn runs(&self, tier: Tier) -> u64 {
        match tier {
            Tier::Quick => 1_000_000,
            Tier::Thorough => 60_000_000,
        }
    }
    fn generate(&self, rng: &mut Rng, index: u64, _tier: Tier) -> Scenario {
        let mut sc = Scenario::new("C03", "random");
        if (index as usize) < DIRECTED.len() {
            let (s, e) = DIRECTED[index as usize];
            sc.sub = "directed".into();
            sc.stream = s.to_vec();
            sc.entry = e;
            sc.intended_header_len = s.len();
            sc.events = transport::every_cut(s.len(), s.len());
            return sc;
        }
        if (index as usize) < DIRECTED.len() + 3 {
            sc.sub = "directed_dense_section".into();
            sc.stream = dense_section(index - DIRECTED.len() as u64);
            sc.entry = Entry::V2;
            sc.set_tag("fault", "dense_tlv_section");
            sc.intended_header_len = sc.stream.len();
            sc.events = vec![Ev::Deliver(sc.stream.len()), Ev::Stall];
            return sc;
        }
        sc.entry = *rng.pick(&Entry::ALL);
        if index % 512 == 77 {
            // 1 = the caller's thread-local was used first, 2 = the library was
            sc.set_meta("teardown", 1 + ((index / 512) % 2) as i64);
        }
        let mut hlen = 0usize;
        let mut hot: Vec<usize> = Vec::new();
        let mut stream: Vec<u8>;
        match rng.below(24) {
            22 | 23 => {
                // a sender that gets the line ending or the separators wrong
                sc.sub = "sloppy_sender".into();
                sc.set_tag("fault", "sloppy_line");
                stream = super::c04::sloppy_v1(rng);
            }
            20 | 21 => {
                // one entry of the single-element corruption dictionaries (C12), here only for
                // the monitors: no panic, no hang, in both build profiles
                let base = loop {
                    let w = wire::gen_v1(rng, true);
                    if w.bytes.len() <= 107 {
                        break w.bytes;
                    }
                };
                let all = super::c12::v1_corruption_streams(&base);
                sc.sub = "dictionary_corruption".into();
                sc.set_tag("fault", "dictionary_corruption");
                stream = if all.is_empty() {
                    base
                } else {
                    all[rng.below(all.len())].clone()
                };
            }
            0..=5 => {
                let hs = gen_hop_stream(rng, false, true, 45);
                sc.sub = "well_formed".into();
                hlen = hs.wire.bytes.len();
                hot = hs.wire.hot_cuts();
                stream = hs.stream;
            }
            6..=9 => {
                let (j, kind) = wire::gen_junk(rng);
                sc.sub = "junk_peer".into();
                sc.set_tag("fault", kind);
                stream = j;
            }
            10..=15 => {
                let hs = gen_hop_stream(rng, false, false, 45);
                sc.sub = "corrupt".into();
                hlen = hs.wire.bytes.len();
                stream = hs.stream;
                let n = rng.range(1, 3);
                let mut names: Vec<&'static str> = Vec::new();
                for _ in 0..n {
                    names.push(faults::corrupt(rng, &mut stream, hlen));
                }
                sc.set_tag("fault", &names.join("+"));
            }
            16 | 17 => {
                let (s, kind) = faults::splice(rng);
                sc.sub = "splice".into();
                sc.set_tag("fault", kind);
                stream = s;
            }
            _ => {
                let (s, kind) = faults::length_lie(rng);
                sc.sub = "length_lie".into();
                sc.set_tag("fault", kind);
                stream = s;
                let w1 = wire::gen_v1(rng, true);
                let (t, _) = wire::gen_trailer(rng, &w1);
                if rng.chance(1, 2) {
                    stream.extend(t);
                }
            }
        }
        if hlen == 0 {
            hlen = stream.len();
        }
        sc.intended_header_len = hlen;
        sc.bufcap = pick_bufcap(rng);
        let mut fc = FaultCounts::default();
        let cfg = Cfg {
            style: transport::pick_style(rng),
            eintr_pct: 8,
            end: transport::pick_end(rng),
            cut_at: if rng.chance(1, 5) && !stream.is_empty() {
                Some(rng.range(0, stream.len()))
            } else {
                None
            },
        };
        sc.events = transport::schedule(rng, stream.len(), hlen, &hot, cfg, &mut fc);
        sc.stream = stream;
        sc
    }

    fn execute(&self, sc: &Scenario, st: &mut Stats) -> Vec<Violation> {
        let mut out: Vec<Violation> = Vec::new();
        let entry = sc.entry;
        if let Some(f) = sc.tag("fault") {
            for part in f.split('+') {
                st.hit_dyn(format!("fault:{}", part));
            }
        }
        st.hit_dyn(format!("entry:{}", entry.name()));
        st.distinct(fnv(&sc.stream) ^ (entry as u64) ^ ((sc.events.len() as u64) << 40));
        let mut last_len = usize::MAX;
        let end = drive(sc, ReadSizing::Fill, |step| {
            let b = view(entry, step.buf);
            st.oracle_evals += 1;
            // monitor (a): no unwind from the entry point
            let v = match parse(entry, step.buf) {
                Ok(v) => v,
                Err(desc) => {
                    out.push(viol(
                        "C03",
                        "panic_in_parse",
                        entry,
                        b,
                        panic_site(&desc),
                        format!("{} panicked on {:?}: {}", entry.name(), printable(b, 140), desc),
                    ));
                    return false;
                }
            };
            st.log("parse", b.len() as u64, v.is_ok() as u64);
            if v.is_ok() {
                st.hit("probe:accepted");
            }
            // monitor (a) again: every function reachable from the result
            match guard(|| exercise(&v)) {
                Err(desc) => {
                    out.push(viol(
                        "C03",
                        "panic_in_accessor",
                        entry,
                        b,
                        panic_site(&desc),
                        format!(
                            "an accessor / formatter / owned copy / TLV iteration panicked on the result of {} for {:?}: {}",
                            entry.name(),
                            printable(b, 140),
                            desc
                        ),
                    ));
                    return false;
                }
                Ok(Err(items)) => {
                    out.push(viol(
                        "C03",
                        "tlv_iteration_exceeds_bound",
                        entry,
                        b,
                        format!("{} items", items),
                        format!(
                            "TLV iteration over the accepted header yielded {} items, more than n/3 + 1",
                            items
                        ),
                    ));
                    return false;
                }
                Ok(Ok(items)) => {
                    if items > 0 {
                        st.hit("probe:tlv_items_walked");
                    }
                }
            }
            // every delivered buffer suffix is also a TLV section
            if step.buf.len() != last_len {
                last_len = step.buf.len();
                let n = step.buf.len();
                for k in [0usize, 16, 28, n / 2, n.saturating_sub(3)] {
                    if k > n {
                        continue;
                    }
                    let section = &step.buf[k..];
                    match guard(|| walk_tlvs(v2::TypeLengthValues::from(section))) {
                        Err(desc) => {
                            out.push(viol(
                                "C03",
                                "panic_in_tlv_iteration",
                                entry,
                                section,
                                panic_site(&desc),
                                format!(
                                    "TypeLengthValues::from({:?}) iteration panicked: {}",
                                    printable(section, 80),
                                    desc
                                ),
                            ));
                            return false;
                        }
                        Ok(Err(items)) => {
                            out.push(viol(
                                "C03",
                                "tlv_iteration_exceeds_bound",
                                entry,
                                section,
                                format!("{} items", items),
                                format!(
                                    "TLV iteration over a {}-byte section yielded {} items, more than n/3 + 1",
                                    section.len(),
                                    items
                                ),
                            ));
                            return false;
                        }
                        Ok(Ok(_)) => {}
                    }
                }
            }
            // keep reading while undecided (a complete verdict ends the receiver)
            v.is_incomplete()
        });
        count_transport(st, sc, &end);
        if let Some(order) = sc.meta("teardown") {
            // lifecycle fault: the library is called once more while the thread is torn down
            st.hit("fault:call_during_thread_teardown");
            for desc in crate::recv::teardown_probe(&sc.stream, order == 2) {
                out.push(viol(
                    "C03",
                    "panic_during_thread_teardown",
                    entry,
                    &sc.stream,
                    crate::recv::panic_site(&desc),
                    desc,
                ));
                break;
            }
        }
        if entry.is_text() {
            // reach probe: a multi-byte character right after the first CR reached a text entry point
            let s = crate::recv::text_view(&sc.stream[..end.stream_read.min(sc.stream.len())]);
            if let Some(i) = s.find('\r') {
                if s.as_bytes().get(i + 1).map(|b| *b >= 0x80).unwrap_or(false) {
                    st.hit("probe:multibyte_after_cr_text_entry");
                }
            }
        }
        out
    }

    fn interference(&self) -> bool {
        true
    }
    fn required_probes(&self, _tier: Tier) -> Vec<&'static str> {
        vec![
            "probe:accepted",
            "probe:tlv_items_walked",
            "probe:multibyte_after_cr_text_entry",
            "fault:eintr",
            "fault:stall",
            "fault:eof",
            "fault:reset",
            "fault:truncated_stream",
            "fault:buffer_full",
            "fault:call_during_thread_teardown",
        ]
    }
    fn rule(&self) -> String {
        "one run = one stream (well-formed header ++ trailer; junk peer of 9 kinds; 1-3 in-flight corruptions: bit flip, byte replace, byte -> multi-byte UTF-8 sequence biased to the position after a CR, inserted CR, deletion, insertion, extreme byte, truncation; splices of two headers / signature+text / text+v2; length lies made with the real Builder::set_length) under a seeded schedule (segmentation, EINTR, stall / EOF / reset, peer cut-off at a random byte, receiver buffer 107..65551 or growable) through one entry point drawn per run. After every event the entry point is called on the buffer and every public accessor, formatter, to_owned and the full TLV iteration are called on the result; five suffixes of every buffer are iterated as TLV sections. Distinct by (stream hash, entry point, schedule length); every run is non-trivial.".into()
    }
    fn real_vs_stub(&self) -> serde_json::Value {
        json!({
            "real": ["all six entry points", "every accessor / Display / Debug / to_owned / clone / PartialEq on v1::Header, v2::Header, TypeLengthValue", "TypeLengthValues iteration incl. From<&[u8]>", "Display / Debug / source() / PartialResult on all error types", "sender-side encoders"],
            "stub": ["transport and fault injector", "receiver loop", "junk / corruption generators"],
            "build_configurations": "the same batch is run by a release binary (overflow checks off) and by a `checked` binary (opt-level 3 with overflow-checks and debug-assertions on); ppp is compiled with the harness' profile in both"
        })
    }
    fn assumptions(&self) -> Vec<String> {
        vec![
            "text entry points only ever receive valid UTF-8 (the longest valid prefix of the buffer), as the property's quantifier says".into(),
            "a hang is detected by a 60 s wall-clock watchdog per run (a run normally takes well under 1 ms); the clock influences no run".into(),
            "this samples the input space through faulted streams; it is not a proof of panic-freedom".into(),
        ]
    }
}
