//! C09 — the builder's length field is never stale, truncated or silently wrong.
//! Reference model, operation by operation, over seeded call histories.

use super::*;
use crate::builder_hist::{gen_history, run_model, run_real, RealOutcome};
use crate::engine::Tier;
use crate::recv::guard;
use crate::rng::fnv;
use crate::scenario::BOp;
use serde_json::json;

pub struct C09;

pub fn history_shape(sc: &Scenario) -> String {
    let mut s = String::new();
    s.push_str(match sc.ctor {
        Some(crate::scenario::Ctor::New { .. }) => "new",
        Some(crate::scenario::Ctor::WithAddresses { .. }) => "with_addresses",
        None => "?",
    });
    for op in sc.ops.iter().take(10) {
        s.push(',');
        s.push_str(match op {
            BOp::Reserve(_) => "reserve",
            BOp::SetLength(Some(_)) => "set_length(Some)",
            BOp::SetLength(None) => "set_length(None)",
            BOp::Write(_) => "write",
            BOp::Batch(_) => "batch",
            BOp::BatchLazy(..) => "batch_lazy",
            BOp::WriteTlv(..) => "write_tlv",
            BOp::RawWrite(..) => "io_write_all",
        });
    }
    if sc.ops.len() > 10 {
        s.push_str(",..");
    }
    s.push_str(",build");
    s
}

fn history_sig(sc: &Scenario) -> u64 {
    // operation-kind sequence + positions of set_length + total size class
    let m = run_model(sc.ctor.as_ref().unwrap(), &sc.ops);
    let class = match m.body_len() {
        0 => 0u64,
        1..=255 => 1,
        256..=65534 => 2,
        65535 => 3,
        65536 => 4,
        _ => 5,
    };
    fnv(history_shape(sc).as_bytes()) ^ class.wrapping_mul(0x9E37_79B9_7F4A_7C15)
}

impl Check for C09 {
    fn id(&self) -> &'static str {
        "C09"
    }
    fn runs(&self, tier: Tier) -> u64 {
        match tier {
            Tier::Quick => 500_000,
            Tier::Thorough => 40_000_000,
        }
    }
    fn generate(&self, rng: &mut Rng, _index: u64, _tier: Tier) -> Scenario {
        let mut sc = Scenario::new("C09", "history");
        gen_history(rng, &mut sc);
        sc
    }
    fn shrink_stream(&self) -> bool {
        false
    }
    fn execute(&self, sc: &Scenario, st: &mut Stats) -> Vec<Violation> {
        let mut out = Vec::new();
        let ctor = match &sc.ctor {
            Some(c) => c,
            None => return out,
        };
        let model = run_model(ctor, &sc.ops);
        let real = match guard(|| run_real(ctor, &sc.ops)) {
            Ok(r) => r,
            Err(_) => {
                st.hit("skip:panic");
                return out;
            }
        };
        st.distinct(history_sig(sc));
        st.oracle_evals += 1;
        st.log("history", sc.ops.len() as u64, model.body_len() as u64);
        match &real {
            RealOutcome::Built(b) => st.log("built", b.len() as u64, fnv(b)),
            RealOutcome::WriteFailed(i) => st.log("write_failed", *i as u64, 0),
            RealOutcome::BuildFailed => st.log("build_failed", 0, 0),
        }
        let body = model.body_len();
        if model.set_length_after_first_write {
            st.hit("probe:set_length_after_first_write");
        }
        if model.set_length_none_after_some {
            st.hit("probe:set_length_none_after_some");
        }
        if model.reserve_after_write {
            st.hit("probe:reserve_after_write");
        }
        if model.writes == 0 {
            st.hit("probe:build_without_any_write");
        }
        if model.obligatory_failure_at.is_none() {
            match body {
                65535 => st.hit("probe:payload_total_65535"),
                65536 => st.hit("probe:payload_total_65536"),
                _ => {}
            }
        }
        let mk = |clause: &str, result: String, detail: String| {
            let mut v = viol("C09", clause, Entry::V2, &[], result, detail);
            v.entry = "builder".into();
            v.shape = history_shape(sc);
            v
        };
        match (&real, model.obligatory_failure_at) {
            // a single value over 65535 bytes must make that very call fail
            (RealOutcome::WriteFailed(i), Some(j)) if *i == j => {
                st.hit("probe:value_over_65535_rejected");
            }
            (RealOutcome::WriteFailed(i), Some(j)) if *i < j => {
                // failed earlier than obliged: only the writer's size guard may do that
                st.hit("history_failed_early");
            }
            (_, Some(j)) => {
                out.push(mk(
                    "oversized_value_accepted",
                    format!("{:?}", summarize(&real)),
                    format!(
                        "operation #{} writes a TLV value / byte slice longer than 65535 bytes and did not fail (outcome: {})",
                        j,
                        summarize(&real)
                    ),
                ));
            }
            (RealOutcome::Built(bytes), None) => {
                st.hit("probe:history_built");
                if bytes.len() < 16 {
                    out.push(mk(
                        "output_shorter_than_fixed_part",
                        format!("{} bytes", bytes.len()),
                        "build returned fewer than 16 bytes".into(),
                    ));
                    return out;
                }
                let field = u16::from_be_bytes([bytes[14], bytes[15]]);
                let actual = bytes.len() - 16;
                match model.length_override {
                    Some(want) => {
                        st.hit("probe:built_with_override");
                        if field != want {
                            let clause = if model.set_length_after_first_write {
                                "explicit_length_stale"
                            } else {
                                "explicit_length_not_written"
                            };
                            out.push(mk(
                                clause,
                                format!("field={}", field),
                                format!(
                                    "the most recent set_length supplied {} but the built header carries {} ({} bytes follow the fixed part)",
                                    want, field, actual
                                ),
                            ));
                        }
                    }
                    None => {
                        if actual > 65535 {
                            out.push(mk(
                                "wrapped_length_emitted",
                                format!("field={}", field),
                                format!(
                                    "no explicit length in force and {} bytes follow the fixed part, yet build succeeded with length field {}",
                                    actual, field
                                ),
                            ));
                        } else if field as usize != actual {
                            out.push(mk(
                                "length_field_not_actual",
                                format!("field={}", field),
                                format!(
                                    "no explicit length in force: field is {} but {} bytes follow the fixed part",
                                    field, actual
                                ),
                            ));
                        }
                    }
                }
            }
            (RealOutcome::BuildFailed, None) => {
                if model.length_override.is_none() && body > 65535 {
                    // (whether the overflow is reported by build or already by the write that
                    // crosses the limit is not the property's business)
                    st.hit("probe:body_over_65535_not_built");
                } else {
                    // the property speaks about sequences that succeed; counted, not flagged
                    st.hit("history_build_failed_unexpectedly");
                }
            }
            (RealOutcome::WriteFailed(_), None) => {
                // an early Err from the Writer's size guard once the buffer exceeds a
                // full-size header is allowed and simply ends the history
                st.hit("history_write_failed");
                if model.length_override.is_none() && body > 65535 {
                    st.hit("probe:body_over_65535_not_built");
                }
            }
        }
        out
    }
    fn required_probes(&self, _tier: Tier) -> Vec<&'static str> {
        vec![
            "probe:set_length_after_first_write",
            "probe:set_length_none_after_some",
            "probe:payload_total_65535",
            "probe:payload_total_65536",
            "probe:value_over_65535_rejected",
            "probe:body_over_65535_not_built",
            "probe:reserve_after_write",
            "probe:build_without_any_write",
            "probe:history_built",
            "probe:built_with_override",
        ]
    }
    fn rule(&self) -> String {
        "one run = one builder history: constructor (new with any two control bytes, or with_addresses for each family) followed by up to 12 seeded operations among reserve_capacity, set_length(Some|None) (placed before the first write, between writes, last before build, repeated), write_payload of every supported kind, write_payloads (heterogeneous and homogeneous batches of 0-6), write_tlv, then build; sizes biased so that bodies land below, at and above 65535 and single values of 65535 / 65536 bytes occur. The real Builder and a reference model (last set_length wins; else actual body length; obligatory failures) are fed the same history. Distinct by (operation-kind sequence incl. positions of set_length, body size class); every run is non-trivial. No schedule nondeterminism exists here and none is claimed: what is searched is the space of call histories and failure points.".into()
    }
    fn real_vs_stub(&self) -> serde_json::Value {
        json!({
            "real": ["v2::Builder::{new, with_addresses, reserve_capacity, set_length, write_payload, write_payloads, write_tlv, build}", "v2::Writer and every WriteToHeader impl"],
            "stub": ["reference model of the length field (about 40 lines, shares no code with the crate)", "history generator"]
        })
    }
    fn assumptions(&self) -> Vec<String> {
        vec![
            "a history that fails where the model predicted success is counted, not flagged (the property speaks about builds that succeed), except for the two obligatory failures it names".into(),
        ]
    }
}

fn summarize(r: &RealOutcome) -> String {
    match r {
        RealOutcome::Built(b) => format!("built {} bytes", b.len()),
        RealOutcome::WriteFailed(i) => format!("write failed at op #{}", i),
        RealOutcome::BuildFailed => "build failed".into(),
    }
}
