//! C20 — every encodable value appends exactly its wire encoding to a writer that is
//! below its size limit, reports the number of bytes appended, converts to the same
//! bytes directly, and a value too large for its 16-bit length is refused without
//! writing anything.
//!
//! Writer-history simulation: one or two `Writer`s (pre-filled through
//! `Writer::from(Vec)` and raw `io::Write::write_all`) are driven by a seeded history
//! of `write_to` calls; a reference model (the concatenation of the specification
//! encodings) is run next to them operation by operation. The "faults" are the ones
//! the API itself produces at a seeded point of the history: an oversized value
//! (failure atomicity: nothing may have been written) and the writer's size limit.
//! No schedule nondeterminism exists here and none is claimed (weak fit, as C09/C10).

use super::*;
use crate::builder_hist::{gen_payload, must_fail, payload_data, ref_encode, to_p, TYPE_TABLE};
use crate::engine::Tier;
use crate::recv::guard;
use crate::rng::fnv;
use crate::scenario::{hex, BOp, Ctor, Fill, Payload};
use ppp::v2::{TypeLengthValue, WriteToHeader, Writer};
use serde_json::json;
use std::io::Write;

pub struct C20;

/// A maximal payload: 65535 bytes. A writer that holds less than this is certainly "below its
/// size limit" under every reading (a limit smaller than that could not even hold a maximal
/// payload, let alone a maximal header of 16 + 65535 bytes), whatever the size of the value that
/// is written next. A value is judged when the writer is below a
/// maximal payload throughout its write, i.e. also when the last of the parts it is written
/// in begins (the crate writes addresses and TLVs field by field); otherwise it is not judged.
const SAFE_TOTAL: usize = 65535;

/// Length of the last part a value is written in (its whole encoding for single-part values).
fn last_part_len(p: &Payload, enc_len: usize) -> usize {
    match p {
        Payload::Addr(fam, _) => match fam {
            1 | 2 => 2,
            3 => 108,
            _ => 0,
        },
        Payload::TlvStruct(_, f) | Payload::TlvTuple(_, f) | Payload::TlvTyped(_, f) => {
            if f.len == 0 {
                2
            } else {
                f.len
            }
        }
        _ => enc_len,
    }
}

fn kind_name(p: &Payload) -> &'static str {
    match p {
        Payload::U8(_) => "u8",
        Payload::U16(_) => "u16",
        Payload::U32(_) => "u32",
        Payload::U64(_) => "u64",
        Payload::U128(_) => "u128",
        Payload::Usize(_) => "usize",
        Payload::I8(_) => "i8",
        Payload::I16(_) => "i16",
        Payload::I32(_) => "i32",
        Payload::I64(_) => "i64",
        Payload::I128(_) => "i128",
        Payload::Isize(_) => "isize",
        Payload::Slice(_) => "slice",
        Payload::Addr(..) => "addresses",
        Payload::TlvStruct(..) => "tlv_struct",
        Payload::TlvTuple(..) => "tlv_tuple",
        Payload::TlvTyped(..) => "tlv_typed_tuple",
        Payload::Section(_) => "section",
        Payload::SectionAdvanced(..) => "section_advanced",
        Payload::Type(_) => "type",
    }
}

fn shape_of(sc: &Scenario) -> String {
    let mut s = String::from("writer");
    for op in sc.ops.iter().take(8) {
        s.push(',');
        match op {
            BOp::Write(p) => s.push_str(kind_name(p)),
            BOp::RawWrite(_) => s.push_str("io_write_all"),
            _ => s.push('?'),
        }
    }
    if sc.ops.len() > 8 {
        s.push_str(",..");
    }
    s
}

/// `value.write_to(&mut writer)` through the concrete type of the value (by value or, drawn
/// from the fill seed, through the `&T` blanket impl), as a caller would write it.
fn real_write(p: &Payload, data: &[u8], w: &mut Writer, by_ref: bool) -> std::io::Result<usize> {
    match p {
        Payload::U8(x) => if by_ref { (&x).write_to(w) } else { x.write_to(w) },
        Payload::U16(x) => if by_ref { (&x).write_to(w) } else { x.write_to(w) },
        Payload::U32(x) => if by_ref { (&x).write_to(w) } else { x.write_to(w) },
        Payload::U64(x) => if by_ref { (&x).write_to(w) } else { x.write_to(w) },
        Payload::U128(x) => if by_ref { (&x).write_to(w) } else { x.write_to(w) },
        Payload::Usize(x) => if by_ref { (&x).write_to(w) } else { x.write_to(w) },
        Payload::I8(x) => if by_ref { (&x).write_to(w) } else { x.write_to(w) },
        Payload::I16(x) => if by_ref { (&x).write_to(w) } else { x.write_to(w) },
        Payload::I32(x) => if by_ref { (&x).write_to(w) } else { x.write_to(w) },
        Payload::I64(x) => if by_ref { (&x).write_to(w) } else { x.write_to(w) },
        Payload::I128(x) => if by_ref { (&x).write_to(w) } else { x.write_to(w) },
        Payload::Isize(x) => if by_ref { (&x).write_to(w) } else { x.write_to(w) },
        Payload::Slice(_) => if by_ref { (&data).write_to(w) } else { data.write_to(w) },
        Payload::TlvTuple(k, _) => {
            let t = (*k, data);
            if by_ref { (&t).write_to(w) } else { t.write_to(w) }
        }
        Payload::TlvTyped(i, _) => {
            let t = (TYPE_TABLE[*i as usize % 12].0, data);
            if by_ref { (&t).write_to(w) } else { t.write_to(w) }
        }
        _ => {
            let v = to_p(p, data);
            if by_ref { (&v).write_to(w) } else { v.write_to(w) }
        }
    }
}

fn real_to_bytes(p: &Payload, data: &[u8]) -> std::io::Result<Vec<u8>> {
    match p {
        Payload::Slice(_) => data.to_bytes(),
        Payload::TlvTuple(k, _) => (*k, data).to_bytes(),
        Payload::TlvTyped(i, _) => (TYPE_TABLE[*i as usize % 12].0, data).to_bytes(),
        Payload::U16(x) => x.to_bytes(),
        Payload::U32(x) => x.to_bytes(),
        Payload::U64(x) => x.to_bytes(),
        Payload::I128(x) => x.to_bytes(),
        _ => to_p(p, data).to_bytes(),
    }
}

fn snapshot(w: &mut Writer) -> Vec<u8> {
    let v = std::mem::take(w).finish();
    let copy = v.clone();
    *w = Writer::from(v);
    copy
}

impl Check for C20 {
    fn id(&self) -> &'static str {
        "C20"
    }
    fn runs(&self, tier: Tier) -> u64 {
        match tier {
            Tier::Quick => 400_000,
            Tier::Thorough => 20_000_000,
        }
    }
    fn shrink_stream(&self) -> bool {
        false
    }
    fn generate(&self, rng: &mut Rng, index: u64, _tier: Tier) -> Scenario {
        let mut sc = Scenario::new("C20", "writer_history");
        // (a dummy constructor marks the scenario as an operation history for the shrinker)
        sc.ctor = Some(Ctor::New { vc: 0, afp: 0 });
        sc.aux = rng.next_u64();
        let family = if index < 64 { (index % 4) as usize } else { rng.below(8) };
        // what the two writers hold before the history starts
        let prefill = |rng: &mut Rng, near: bool| -> i64 {
            if near {
                *rng.pick(&[65535i64, 65536, 65551 - 3, 65551 - 1, 65551, 65552, 65000, 65551 - 16]) - rng.below(3) as i64
            } else {
                *rng.pick(&[0i64, 0, 0, 1, 16, 28, 52, 232, 4096])
            }
        };
        match family {
            // near the size limit: small writes that end just below, at and above a full header
            1 => {
                sc.sub = "near_limit".into();
                sc.set_meta("prefill0", prefill(rng, true).max(0));
                sc.set_meta("prefill1", prefill(rng, true).max(0));
                for _ in 0..rng.range(1, 6) {
                    sc.ops.push(BOp::Write(gen_payload(rng, false)));
                }
            }
            // an oversized value at a seeded point of an otherwise ordinary history
            2 => {
                sc.sub = "oversized_value".into();
                sc.set_meta("prefill0", prefill(rng, false));
                let near1 = rng.chance(1, 4);
                sc.set_meta("prefill1", prefill(rng, near1).max(0));
                let n = rng.range(1, 6);
                let at = rng.below(n);
                for i in 0..n {
                    if i == at {
                        let f = Fill {
                            len: *rng.pick(&[65536usize, 65537, 65536 + 255, 70000, 131072, 65539]),
                            seed: rng.next_u64(),
                        };
                        let k = rng.byte();
                        sc.ops.push(BOp::Write(match rng.below(4) {
                            0 => Payload::Slice(f),
                            1 => Payload::TlvStruct(k, f),
                            2 => Payload::TlvTuple(k, f),
                            _ => Payload::TlvTyped(rng.below(12) as u8, f),
                        }));
                    } else {
                        sc.ops.push(BOp::Write(gen_payload(rng, false)));
                    }
                }
            }
            // values of exactly the largest legal size, and totals that land on a full header
            3 => {
                sc.sub = "largest_legal".into();
                sc.set_meta("prefill0", *rng.pick(&[0i64, 16, 13, 3]));
                sc.set_meta("prefill1", 0);
                let f = Fill {
                    len: *rng.pick(&[65535usize, 65534, 65532, 65535 - 3, 65535 - 12, 40000]),
                    seed: rng.next_u64(),
                };
                let k = rng.byte();
                sc.ops.push(BOp::Write(match rng.below(5) {
                    0 => Payload::Slice(f),
                    1 => Payload::TlvStruct(k, f),
                    2 => Payload::TlvTuple(k, f),
                    3 => Payload::Section(f),
                    _ => Payload::TlvTyped(rng.below(12) as u8, f),
                }));
                if rng.chance(1, 2) {
                    sc.ops.insert(0, BOp::Write(gen_payload(rng, false)));
                }
                if rng.chance(1, 2) {
                    sc.ops.push(BOp::Write(gen_payload(rng, false)));
                }
            }
            // ordinary histories
            _ => {
                sc.sub = "ordinary".into();
                sc.set_meta("prefill0", prefill(rng, false));
                sc.set_meta("prefill1", prefill(rng, false));
                for _ in 0..rng.range(1, 10) {
                    if rng.chance(1, 8) {
                        sc.ops.push(BOp::RawWrite(Fill {
                            len: *rng.pick(&[0usize, 1, 16, 300]),
                            seed: rng.next_u64(),
                        }));
                    } else {
                        let big = rng.chance(1, 12);
                        sc.ops.push(BOp::Write(gen_payload(rng, big)));
                    }
                }
            }
        }
        // which of the two writers each operation goes to (bit i), and how often the harness looks
        // into the writers (0 = after every operation, 1 = only when it has to, and at the end)
        sc.set_meta("wsel", if rng.chance(1, 2) { 0 } else { (rng.next_u64() >> 1) as i64 });
        sc.set_meta("lazy_snapshots", rng.below(2) as i64);
        sc
    }
    fn execute(&self, sc: &Scenario, st: &mut Stats) -> Vec<Violation> {
        let mut out = Vec::new();
        if sc.ctor.is_none() {
            return out;
        }
        st.distinct(fnv(shape_of(sc).as_bytes()) ^ fnv(sc.sub.as_bytes()) ^ (sc.ops.len() as u64));
        let wsel = sc.meta("wsel").unwrap_or(0) as u64;
        let lazy = sc.meta("lazy_snapshots").unwrap_or(0) != 0;
        let mk = |what: &str, clause: &str, result: String, detail: String| -> Violation {
            let mut v = viol("C20", clause, Entry::V2, &[], result, detail);
            v.entry = what.to_string();
            v.shape = shape_of(sc);
            v
        };
        // the two writers and what the model says they hold
        let mut model: Vec<Vec<u8>> = Vec::new();
        let mut real: Vec<Writer> = Vec::new();
        for (i, key) in ["prefill0", "prefill1"].iter().enumerate() {
            let n = sc.meta(key).unwrap_or(0).max(0) as usize;
            let bytes = Fill { len: n, seed: sc.aux ^ i as u64 }.bytes();
            real.push(if n == 0 && sc.aux % 2 == 0 {
                Writer::default()
            } else {
                Writer::from(bytes.clone())
            });
            model.push(bytes);
        }
        // in_sync[w] = the model is known to equal the writer's contents
        let mut in_sync = [true, true];
        for (i, op) in sc.ops.iter().enumerate() {
            let w = ((wsel >> (i % 63)) & 1) as usize;
            match op {
                BOp::RawWrite(f) => {
                    // state-building only: the property does not speak about io::Write itself
                    let data = f.bytes();
                    let r = guard(|| real[w].write_all(&data));
                    st.log("io_write_all", data.len() as u64, matches!(r, Ok(Ok(()))) as u64);
                    model[w] = snapshot(&mut real[w]);
                    in_sync[w] = true;
                    st.hit("probe:raw_io_write");
                }
                BOp::Write(p) => {
                    let data = payload_data(p);
                    let enc = ref_encode(p);
                    let by_ref = match p {
                        Payload::Slice(f) | Payload::TlvTuple(_, f) | Payload::TlvTyped(_, f) | Payload::Addr(_, f) => f.seed % 5 < 2,
                        _ => (sc.aux >> (i % 60)) & 1 == 1,
                    };
                    if !in_sync[w] {
                        model[w] = snapshot(&mut real[w]);
                        in_sync[w] = true;
                    }
                    let before_len = model[w].len();
                    let oversized = must_fail(p);
                    // (a TLV section has no 16-bit length of its own and the property bounds only
                    // byte slices: a section of any size is an encodable value)
                    let unjudged_size = false;
                    let last_part_start = before_len + enc.len() - last_part_len(p, enc.len()).min(enc.len());
                    let judged = !unjudged_size && (oversized || last_part_start < SAFE_TOTAL);
                    let r = guard(|| real_write(p, &data, &mut real[w], by_ref));
                    st.oracle_evals += 1;
                    st.log(
                        "write_to",
                        enc.len() as u64,
                        match &r {
                            Ok(Ok(n)) => *n as u64,
                            Ok(Err(_)) => u64::MAX,
                            Err(_) => u64::MAX - 1,
                        },
                    );
                    if w == 1 {
                        st.hit("probe:second_writer_used");
                    }
                    if by_ref {
                        st.hit("probe:written_by_reference");
                    }
                    if judged && !oversized && before_len + enc.len() > SAFE_TOTAL {
                        st.hit("probe:write_crosses_a_full_header");
                    }
                    if !judged {
                        st.hit("skip:writer_not_below_a_full_header");
                        in_sync[w] = false;
                        continue;
                    }
                    if before_len > 0 {
                        st.hit("probe:writer_already_holds_bytes");
                    }
                    if oversized {
                        st.hit("probe:oversized_value");
                        // refused, and nothing written
                        let after = snapshot(&mut real[w]);
                        match r {
                            Ok(Err(_)) => {
                                st.hit("probe:oversized_value_refused");
                                if after != model[w] {
                                    out.push(mk(
                                        kind_name(p),
                                        "refused_value_left_bytes_in_the_writer",
                                        format!("Err, writer {} -> {} bytes", before_len, after.len()),
                                        format!(
                                            "op {}: {} of {} value bytes was refused, but the writer went from {} to {} bytes (tail ..{})",
                                            i, kind_name(p), data.len(), before_len, after.len(),
                                            hex(&after[after.len().saturating_sub(8).max(before_len.min(after.len()))..])
                                        ),
                                    ));
                                    return out;
                                }
                            }
                            Ok(Ok(n)) => {
                                out.push(mk(
                                    kind_name(p),
                                    "oversized_value_not_refused",
                                    format!("Ok({})", n),
                                    format!("op {}: {} with a value of {} bytes (more than 65535) returned Ok({})", i, kind_name(p), data.len(), n),
                                ));
                                return out;
                            }
                            Err(_) => {
                                st.hit("skip:panic");
                                return out;
                            }
                        }
                    } else {
                        let want_len = enc.len();
                        match r {
                            Ok(Ok(n)) => {
                                st.hit("probe:value_appended");
                                if n != want_len {
                                    out.push(mk(
                                        kind_name(p),
                                        "returned_count_is_not_bytes_appended",
                                        format!("Ok({}) for {} bytes", n, want_len),
                                        format!("op {}: write_to of a {} returned Ok({}), its encoding is {} bytes", i, kind_name(p), n, want_len),
                                    ));
                                    return out;
                                }
                                model[w].extend_from_slice(&enc);
                                if !lazy || i + 1 == sc.ops.len() {
                                    let after = snapshot(&mut real[w]);
                                    if after != model[w] {
                                        out.push(diff_violation(&mk, kind_name(p), i, before_len, &after, &model[w]));
                                        return out;
                                    }
                                }
                            }
                            Ok(Err(e)) => {
                                out.push(mk(
                                    kind_name(p),
                                    "write_refused_below_the_size_limit",
                                    format!("Err({:?}) at {} + {}", e.kind(), before_len, want_len),
                                    format!(
                                        "op {}: write_to of a {} ({} bytes encoded) into a writer holding {} bytes failed: {}",
                                        i, kind_name(p), want_len, before_len, e
                                    ),
                                ));
                                return out;
                            }
                            Err(site) => {
                                out.push(mk(
                                    kind_name(p),
                                    "panic_in_write_to",
                                    crate::recv::panic_site(&site),
                                    format!("op {}: write_to of a {} panicked: {}", i, kind_name(p), site),
                                ));
                                return out;
                            }
                        }
                    }
                    // converting the value to bytes directly gives the same encoding
                    {
                        match guard(|| real_to_bytes(p, &data)) {
                            Ok(Ok(b)) => {
                                st.hit("probe:to_bytes_compared");
                                if oversized {
                                    out.push(mk(
                                        kind_name(p),
                                        "oversized_value_converted_to_bytes",
                                        format!("Ok({} bytes)", b.len()),
                                        format!("op {}: to_bytes of a {} with {} value bytes returned {} bytes", i, kind_name(p), data.len(), b.len()),
                                    ));
                                    return out;
                                }
                                if b != enc {
                                    out.push(mk(
                                        kind_name(p),
                                        "to_bytes_differs_from_encoding",
                                        format!("{} vs {} bytes", b.len(), enc.len()),
                                        format!("op {}: to_bytes of a {} gave ..{} ({} bytes), its encoding is ..{} ({} bytes)", i, kind_name(p), hex(&b[..b.len().min(12)]), b.len(), hex(&enc[..enc.len().min(12)]), enc.len()),
                                    ));
                                    return out;
                                }
                            }
                            Ok(Err(_)) => {
                                if !oversized {
                                    out.push(mk(
                                        kind_name(p),
                                        "to_bytes_refused_an_encodable_value",
                                        "Err".into(),
                                        format!("op {}: to_bytes of a {} ({} bytes encoded) failed", i, kind_name(p), enc.len()),
                                    ));
                                    return out;
                                }
                            }
                            Err(_) => st.hit("skip:panic"),
                        }
                    }
                    // a TLV and the equivalent (type, bytes) pair encode identically
                    if let Payload::TlvStruct(k, _) | Payload::TlvTuple(k, _) = p {
                        if !oversized {
                            let a = guard(|| TypeLengthValue::new(*k, data.as_slice()).to_bytes().ok());
                            let b = guard(|| (*k, data.as_slice()).to_bytes().ok());
                            let c = guard(|| TypeLengthValue::new(*k, data.as_slice()).to_owned().to_bytes().ok());
                            if let (Ok(a), Ok(b), Ok(c)) = (a, b, c) {
                                st.hit("probe:tlv_and_pair_compared");
                                if a != b || a != c {
                                    out.push(mk(
                                        "tlv",
                                        "tlv_and_pair_encode_differently",
                                        "differs".into(),
                                        format!("op {}: TypeLengthValue::new({}, {} bytes), its owned copy and the (type, bytes) pair do not all encode identically", i, k, data.len()),
                                    ));
                                    return out;
                                }
                            }
                        }
                    }
                }
                _ => {}
            }
        }
        // the other writer must hold what the model says too (nothing leaked between the two)
        for w in 0..2 {
            if in_sync[w] {
                let after = snapshot(&mut real[w]);
                if after != model[w] {
                    out.push(diff_violation(&mk, "writer", sc.ops.len(), 0, &after, &model[w]));
                    return out;
                }
                st.hit("probe:final_contents_compared");
            }
        }
        out
    }
    fn required_probes(&self, _tier: Tier) -> Vec<&'static str> {
        vec![
            "probe:value_appended",
            "probe:writer_already_holds_bytes",
            "probe:oversized_value",
            "probe:oversized_value_refused",
            "probe:to_bytes_compared",
            "probe:tlv_and_pair_compared",
            "probe:second_writer_used",
            "probe:written_by_reference",
            "probe:raw_io_write",
            "probe:final_contents_compared",
            "probe:write_crosses_a_full_header",
        ]
    }
    fn rule(&self) -> String {
        "one run = one writer history: two Writers (empty, or pre-filled through Writer::from / io::Write::write_all with 0..65552 bytes) receive up to 10 seeded write_to calls of every encodable kind (integers of every width and sign, byte slice, Addresses of each family, TypeLengthValue borrowed and owned, (u8, &[u8]) and (Type, &[u8]) pairs, TypeLengthValues whole and advanced, Type), by value and through the &T impl, each directed to one of the two writers; directed families put an oversized value (65536..131072 value bytes) at a seeded point of the history, the largest legal values (65535) and writers that end just below / at / above a full-size header. After every write into a writer that holds less than 65535 bytes (also at the moment the last of the value's parts is written; the write itself may end above that): result Ok(n) with n = length of the specification encoding, the writer holds the previous contents followed by that encoding (compared after every operation, or only at the end of the history, drawn per run) and to_bytes() gives the same bytes; an oversized value must be refused by write_to and to_bytes with the writer unchanged; a TLV, its owned copy and the equivalent pair encode identically. Writes into a writer that is not below a full-size header are not judged (the model is re-synchronised from the writer). Distinct by (operation-kind sequence, family).".into()
    }
    fn real_vs_stub(&self) -> serde_json::Value {
        json!({
            "real": ["v2::Writer (Default, From<Vec<u8>>, finish, io::Write::write_all)", "every WriteToHeader impl incl. the &T blanket impl", "WriteToHeader::to_bytes", "TypeLengthValue::new / to_owned"],
            "stub": ["reference encoder (shared with C10: big-endian integers at natural width, TLV = type, be16 length, value; Type codes from the specification table)", "history generator"],
            "note": "weak fit for simulation: no schedule or transport; what is searched is the space of write histories, writer states and failure points (oversized value, size limit), as in C09 / C10"
        })
    }
    fn assumptions(&self) -> Vec<String> {
        vec![
            "a writer that holds less than 65535 bytes is below its size limit (a smaller limit could not hold a maximal payload); a value is judged when that is so throughout its write, i.e. also when the last of its parts begins; other writes are not judged".into(),
            "a TypeLengthValues section of any size is an encodable value (the property bounds byte slices only); its encoding is the whole section wherever its iterator stands".into(),
            "the writers' contents are observed through finish() / Writer::from(), the only public way to look into a Writer".into(),
        ]
    }
}

fn diff_violation(
    mk: &dyn Fn(&str, &str, String, String) -> Violation,
    what: &str,
    op: usize,
    before_len: usize,
    after: &[u8],
    want: &[u8],
) -> Violation {
    let at = after
        .iter()
        .zip(want.iter())
        .position(|(a, b)| a != b)
        .unwrap_or(after.len().min(want.len()));
    let clause = if at < before_len {
        "earlier_contents_changed"
    } else {
        "appended_bytes_are_not_the_encoding"
    };
    let lo = at.saturating_sub(4);
    mk(
        what,
        clause,
        format!("{} vs {} bytes, first difference at {}", after.len(), want.len(), at),
        format!(
            "after op {}: the writer holds {} bytes, the reference {}; first difference at offset {} (writer held {} bytes before): writer ..{} reference ..{}",
            op,
            after.len(),
            want.len(),
            at,
            before_len,
            hex(&after[lo.min(after.len())..(at + 8).min(after.len())]),
            hex(&want[lo.min(want.len())..(at + 8).min(want.len())])
        ),
    )
}
