//! C17 — v2 incomplete errors carry exact counts. A count-driven receiver sizes
//! every read from the numbers in the last error; the transport answers with the
//! full amount or a short read. Oracle: arithmetic on the stream itself.

use super::*;
use crate::engine::Tier;
use crate::recv::guard;
use crate::rng::fnv;
use crate::wire::{FAMILY_SIZE, V2_SIG};
use ppp::v2::{self, ParseError as E2};
use serde_json::json;

pub struct C17;

const L_BOUNDARY: [usize; 16] = [
    0, 1, 2, 3, 11, 12, 13, 35, 36, 37, 215, 216, 217, 255, 256, 65535,
];

fn make_stream(rng: &mut Rng, pair: u8, l: usize, trailer: usize) -> Vec<u8> {
    let cmd = pair % 2;
    let fam = (pair / 2) % 4;
    let proto = pair / 8;
    let mut s = V2_SIG.to_vec();
    s.push(0x20 | cmd);
    s.push((fam << 4) | proto);
    if pair >= 24 {
        // pair values 24.. stand for arbitrary control bytes
        s[12] = rng.byte();
        s[13] = rng.byte();
    }
    s.extend_from_slice(&(l as u16).to_be_bytes());
    // "whatever their values": the payload is seeded noise, sometimes carrying bytes that
    // mean something elsewhere in the protocol
    let mut payload = rng.bytes(l + trailer);
    if rng.chance(1, 6) {
        crate::wire::embed_interesting(rng, &mut payload);
    }
    s.extend(payload);
    s
}

impl Check for C17 {
    fn id(&self) -> &'static str {
        "C17"
    }
    fn runs(&self, tier: Tier) -> u64 {
        match tier {
            Tier::Quick => 300_000,
            Tier::Thorough => 24 * 65_536 + 8_000_000,
        }
    }
    fn generate(&self, rng: &mut Rng, index: u64, tier: Tier) -> Scenario {
        let mut sc = Scenario::new("C17", "random");
        sc.entry = Entry::V2;
        let systematic = match tier {
            Tier::Quick => 24 * 64,
            Tier::Thorough => 24 * 65_536,
        };
        let pair;
        let l;
        if index < systematic {
            sc.sub = "systematic".into();
            pair = (index % 24) as u8;
            let fam = ((pair / 2) % 4) as usize;
            let k = (index / 24) as usize;
            let want = match tier {
                Tier::Quick => {
                    if k < 16 {
                        L_BOUNDARY[k]
                    } else {
                        FAMILY_SIZE[fam] + (k - 16) * 11
                    }
                }
                Tier::Thorough => k,
            };
            // every declared length, including those too small for the family: the tree answers
            // those with a terminal error as soon as the fixed part is complete, which this
            // property does not judge; an incomplete answer would have to be exact and honoured
            l = want;
        } else {
            pair = if rng.chance(1, 10) { 24 } else { rng.below(24) as u8 };
            let fam = ((pair / 2) % 4) as usize;
            let min = if rng.chance(1, 8) { 0 } else { FAMILY_SIZE[fam] };
            l = match rng.below(10) {
                0 => min,
                1 => min + 1,
                2 => 255usize.max(min),
                3 => 256usize.max(min),
                4 => 65535,
                5 => rng.range(min, 65535),
                _ => rng.range(min, min + 300),
            };
        }
        let trailer = if rng.chance(1, 2) { rng.range(0, 40) } else { 0 };
        let mut stream = make_stream(rng, pair, l, trailer);
        let mut l = l;
        if index >= systematic && rng.chance(1, 3) {
            // a structured header instead: well-formed TLVs (realistic types, arbitrary values),
            // so that whatever a tree does with TLV contents on completion is exercised
            let (w, _) = crate::wire::gen_v2(rng, false);
            if w.bytes.len() >= 16 {
                l = u16::from_be_bytes([w.bytes[14], w.bytes[15]]) as usize;
                stream = w.bytes;
                let extra = rng.range(0, 20);
                stream.extend(rng.bytes(extra));
                sc.sub = "structured".into();
            }
        }
        sc.intended_header_len = 16 + l;
        sc.set_meta("declared", l as i64);
        // per-read caps: how much the transport is willing to hand over to each read
        let total = 16 + l;
        let mode = if index < systematic && l <= 512 && (index / 24) % 2 == 0 {
            0
        } else {
            rng.below(5)
        };
        let mut evs: Vec<Ev> = Vec::new();
        match mode {
            0 => {
                // every cut point: one byte per read
                sc.set_tag("schedule", "every_cut");
                for _ in 0..total {
                    evs.push(Ev::Deliver(1));
                }
            }
            1 => {
                sc.set_tag("schedule", "always_full");
            }
            2 => {
                // short reads around the fixed part, then full
                sc.set_tag("schedule", "short_in_fixed_part");
                let mut got = 0;
                while got < 16 {
                    let k = rng.range(1, 5);
                    evs.push(Ev::Deliver(k));
                    got += k;
                }
            }
            _ => {
                sc.set_tag("schedule", "random_short_reads");
                let n = rng.range(1, 24);
                for _ in 0..n {
                    let k = match rng.below(5) {
                        0 => 1,
                        1 => rng.range(1, 16),
                        2 => rng.range(1, 300),
                        3 => rng.range(1, total),
                        _ => usize::MAX / 2,
                    };
                    if rng.chance(1, 12) {
                        evs.push(Ev::Eintr);
                    }
                    evs.push(Ev::Deliver(k));
                }
            }
        }
        evs.push(Ev::Stall);
        sc.events = evs;
        sc.stream = stream;
        sc
    }

    fn execute(&self, sc: &Scenario, st: &mut Stats) -> Vec<Violation> {
        let mut out = Vec::new();
        let stream = &sc.stream;
        if stream.len() < 16 {
            return out;
        }
        let l = u16::from_be_bytes([stream[14], stream[15]]) as usize;
        let total = 16 + l;
        if stream.len() < total {
            st.hit("skip:stream_shorter_than_declared");
            return out;
        }
        st.distinct(fnv(&stream[..16]) ^ fnv(&(sc.events.len() as u64).to_le_bytes()));
        if l == 65535 {
            st.hit("probe:L_65535");
        }
        let mut buf: Vec<u8> = Vec::new();
        // other connections on this receiver's thread (§3.9): a recycled buffer, neighbours
        crate::recv::recycle(&mut buf, 0, sc);
        let mut others = crate::recv::Others::new(sc);
        if sc.recycled.is_some() {
            st.hit("fault:recycled_buffer");
        }
        if !sc.neighbors.is_empty() {
            st.hit("fault:interleaved_neighbours");
        }
        let mut pos = 0usize;
        let mut caps = sc.events.iter();
        let mut last_was_partial_exact = false;
        let mut last_was_short = false;
        let mut last_was_short_after_partial = false;
        let mut steps = 0u64;
        loop {
            steps += 1;
            if steps > 200_000 {
                break;
            }
            let n = buf.len();
            others.step(sc);
            // reach probes count states visited, whatever the library then does with them
            match n {
                12 => st.hit("probe:cut_12"),
                13 => st.hit("probe:cut_13"),
                14 => st.hit("probe:cut_14"),
                15 => st.hit("probe:cut_15"),
                _ => {}
            }
            let r = match guard(|| v2::Header::try_from(&buf[..]).map(|h| h.len())) {
                Ok(r) => r,
                Err(_) => {
                    st.hit("skip:panic");
                    return out;
                }
            };
            st.oracle_evals += 1;
            st.log("parse", n as u64, r.is_ok() as u64);
            // ---- oracle: arithmetic on the stream, exactly as far as the property goes:
            //  * an Incomplete / Partial result must carry exact numbers;
            //  * after a Partial, supplying exactly the missing bytes must give Ok, and
            //    supplying fewer must give Partial with the updated counts.
            // A truncated header that is reported as something else than incomplete without a
            // preceding Partial is not this property's business (C05 / C02) and is only counted.
            let expected: Result<usize, E2> = if n < 16 {
                Err(E2::Incomplete(n))
            } else if n < total {
                Err(E2::Partial(n - 16, l))
            } else {
                Ok(total)
            };
            let carries_counts = matches!(r, Err(E2::Incomplete(_)) | Err(E2::Partial(..)));
            let after_partial = last_was_partial_exact || last_was_short_after_partial;
            let mut clause: Option<&'static str> = None;
            if n < total {
                if carries_counts {
                    if r != expected {
                        clause = Some(if n < 16 {
                            "wrong_count_before_fixed_part"
                        } else if last_was_short_after_partial {
                            "wrong_counts_after_short_read"
                        } else {
                            "wrong_partial_counts"
                        });
                    }
                } else if after_partial {
                    clause = Some("not_incomplete_after_supplying_fewer_bytes");
                } else {
                    st.hit("skip:truncated_but_not_reported_incomplete");
                    return out;
                }
            } else if last_was_partial_exact {
                if r.is_err() {
                    clause = Some("not_ok_after_exact_fill");
                }
            } else if r.is_err() {
                st.hit("skip:complete_header_rejected_without_prior_partial");
                return out;
            }
            if let Some(clause) = clause {
                out.push(viol(
                    "C17",
                    clause,
                    Entry::V2,
                    &buf,
                    format!("{:?}", r),
                    format!(
                        "{} of {} header bytes present (declared length {}): got {:?}, expected {:?}",
                        n, total, l, r, expected
                    ),
                ));
                return out;
            }
            if n >= 16 && n < total {
                st.hit("probe:partial_counts_judged");
            }
            if n >= total {
                if last_was_partial_exact {
                    st.hit("probe:partial_then_exact_fill");
                }
                break;
            }
            // ---- the receiver sizes its next read from what the library said
            let want = match &r {
                Err(E2::Incomplete(have)) => 16usize.saturating_sub(*have),
                Err(E2::Partial(have, need)) => need.saturating_sub(*have),
                _ => 0,
            };
            if want == 0 {
                break;
            }
            // transport: full amount or a short read
            let mut cap = usize::MAX;
            loop {
                match caps.next() {
                    Some(Ev::Deliver(k)) => {
                        cap = *k;
                        break;
                    }
                    Some(Ev::Eintr) => {
                        st.hit("fault:eintr");
                        continue;
                    }
                    _ => break,
                }
            }
            let give = want.min(cap).min(stream.len() - pos).max(1).min(stream.len() - pos);
            if give == 0 {
                break;
            }
            st.hit("fault:reads");
            let from_partial = matches!(r, Err(E2::Partial(..)));
            if give < want {
                st.hit("fault:short_read");
                last_was_short = true;
                last_was_short_after_partial = from_partial;
                last_was_partial_exact = false;
            } else {
                if last_was_short && from_partial {
                    st.hit("probe:short_read_then_fill");
                }
                last_was_partial_exact = from_partial;
                last_was_short = false;
                last_was_short_after_partial = false;
            }
            buf.extend_from_slice(&stream[pos..pos + give]);
            pos += give;
        }
        out
    }

    fn interference(&self) -> bool {
        true
    }
    fn required_probes(&self, _tier: Tier) -> Vec<&'static str> {
        vec![
            "probe:partial_counts_judged",
            "probe:partial_then_exact_fill",
            "probe:short_read_then_fill",
            "probe:L_65535",
            "probe:cut_12",
            "probe:cut_13",
            "probe:cut_14",
            "probe:cut_15",
            "fault:short_read",
        ]
    }
    fn rule(&self) -> String {
        "one run = one v2 header (one of the 24 valid control pairs, a declared length L >= the family size, payload and trailer of seeded noise) read by a receiver that asks for exactly what the last error said is missing (16 - n before the fixed part, need - have after), against a transport that answers in full or with a short read. Systematic runs first (quick: 24 pairs x 64 lengths incl. every boundary; thorough: 24 pairs x all 65536 lengths, clamped to the family minimum), every second one with one byte per read (every cut point) when L <= 512. At every receiver state an Incomplete / Partial result must carry exactly n / (n-16, L); after a Partial, an exact fill must give Ok and a short fill must give Partial with the updated counts. Distinct by (fixed part, schedule length); every run is non-trivial.".into()
    }
    fn real_vs_stub(&self) -> serde_json::Value {
        json!({
            "real": ["v2::Header::try_from", "the numbers carried by v2::ParseError::Incomplete / Partial (they drive the receiver's read sizes)"],
            "stub": ["count-driven receiver loop", "transport with short reads", "noise payload generator"]
        })
    }
    fn assumptions(&self) -> Vec<String> {
        vec!["for declared lengths below the family size the tree reports a terminal error once the fixed part is complete; this property judges only incomplete results and what follows them, so those runs end there (counted under skipped)".into()]
    }
}
