//! C16 — text, byte and FromStr entry points agree; owned copies equal their
//! originals and survive reuse of the receive buffer.
//!
//! Sub-batch "agreement": four replica receivers on the same delivery schedule of
//! a valid-UTF-8 stream; after every delivery their verdicts must agree as the
//! property states. Sub-batch "owned": the receiver accepts a header, takes
//! `to_owned()`, then consumes, compacts, poisons and overwrites its buffer while
//! the owned copy is re-checked against independent snapshots.

use super::*;
use crate::engine::Tier;
use crate::faults;
use crate::recv::{drive, guard, panic_site, ReadSizing};
use crate::rng::fnv;
use crate::scenario::printable;
use crate::transport::Style;
use ppp::{v1, v2, HeaderResult};
use serde_json::json;

pub struct C16;

fn gen_text_stream(rng: &mut Rng, sc: &mut Scenario) -> Vec<u8> {
    if rng.chance(1, 16) {
        // a byte order mark (or another multi-byte character) in front of an otherwise
        // ordinary stream, complete or cut short
        let w = wire::gen_v1(rng, false);
        let m: &str = if rng.chance(2, 3) {
            "\u{feff}"
        } else {
            *rng.pick(wire::multibyte_samples())
        };
        let mut s = m.as_bytes().to_vec();
        let keep = if rng.chance(1, 2) {
            w.bytes.len()
        } else {
            rng.range(0, w.bytes.len())
        };
        let body = crate::recv::text_view(&w.bytes[..keep]).as_bytes().to_vec();
        s.extend(body);
        if rng.chance(1, 3) {
            while s.len() < 107 {
                s.push(b'a');
            }
        }
        sc.set_tag("kind", "bom_prefix");
        return s;
    }
    match rng.below(12) {
        0..=3 => {
            // well-formed line (free text may be non-ASCII), text trailer
            let w = wire::gen_v1(rng, false);
            let mut s = w.bytes;
            let t: &[&str] = &[
                "",
                "GET / HTTP/1.1\r\n",
                "\u{20ac}uro",
                "\n",
                "\r\n",
                "PROXY UNKNOWN\r\n",
                "\u{e9}",
            ];
            s.extend_from_slice(rng.pick(t).as_bytes());
            sc.set_tag("kind", "line");
            s
        }
        4 | 5 => {
            // a multi-byte character right after the first CR, or replacing some byte
            let w = wire::gen_v1(rng, false);
            let mut s = w.bytes;
            let n = s.len();
            let mut x = s.clone();
            let k = faults::corrupt(rng, &mut x, n);
            if std::str::from_utf8(&x).is_ok() {
                s = x;
                sc.set_tag("fault", k);
            } else {
                // force the interesting one: CR followed by a multi-byte character
                let m: &str = *rng.pick(wire::multibyte_samples());
                s.truncate(n - 1);
                s.extend_from_slice(m.as_bytes());
                sc.set_tag("fault", "corrupt_multibyte");
            }
            sc.set_tag("kind", "corrupt");
            s
        }
        6 | 7 => {
            // CR-free text around the 107 limit, CR as the last byte, etc.
            let n = *rng.pick(&[104usize, 105, 106, 107, 108, 109, 130]);
            let head: &[u8] = *rng.pick(&[
                &b"PROXY UNKNOWN "[..],
                &b"PROXY TCP4 1.1.1.1 1.1.1.1 1 1"[..],
                &b""[..],
                &b"PROXY "[..],
            ]);
            let mut s = head.to_vec();
            while s.len() < n {
                if rng.chance(1, 20) && s.len() + 3 <= n {
                    s.extend_from_slice("\u{20ac}".as_bytes());
                } else {
                    s.push(*rng.pick(b"ab1 ."));
                }
            }
            match rng.below(4) {
                0 => s.push(b'\r'),
                1 => s.extend_from_slice(b"\r\n"),
                2 => s.extend_from_slice("\r\u{e9}".as_bytes()),
                _ => {}
            }
            sc.set_tag("kind", "around_107");
            s
        }
        8 | 9 => {
            // token soup / utf8 junk, kept only if valid UTF-8
            let (j, kind) = wire::gen_junk(rng);
            sc.set_tag("kind", kind);
            match String::from_utf8(j) {
                Ok(s) => s.into_bytes(),
                Err(e) => {
                    let v = e.into_bytes();
                    crate::recv::text_view(&v).as_bytes().to_vec()
                }
            }
        }
        _ => {
            // sloppy endings
            let w = wire::gen_v1(rng, false);
            let n = w.bytes.len();
            let mut s = w.bytes[..n - 2].to_vec();
            let e: &[u8] = *rng.pick(&[
                &b" \n"[..],
                &b"\r"[..],
                &b"\rX"[..],
                &b" \r\n"[..],
                &b"\n\r\n"[..],
                "\r\u{1f600}".as_bytes(),
                &b" +1\r\n"[..],
            ]);
            s.extend_from_slice(e);
            sc.set_tag("kind", "sloppy");
            s
        }
    }
}

struct Snap {
    header: Vec<u8>,
    v1_addresses: Option<v1::Addresses>,
    v2_fixed: Option<(v2::Version, v2::Command, v2::Protocol, v2::Addresses)>,
    address_bytes: Vec<u8>,
    tlv_bytes: Vec<u8>,
    tlvs: Vec<Result<(u8, Vec<u8>), String>>,
}

enum Owned {
    V1(v1::Header<'static>),
    V2(v2::Header<'static>, Vec<Option<v2::TypeLengthValue<'static>>>),
}

fn snap_v2(h: &v2::Header<'_>) -> Snap {
    Snap {
        header: h.as_bytes().to_vec(),
        v1_addresses: None,
        v2_fixed: Some((h.version, h.command, h.protocol, h.addresses)),
        address_bytes: h.address_bytes().to_vec(),
        tlv_bytes: h.tlv_bytes().to_vec(),
        tlvs: h
            .tlvs()
            .take(30_000)
            .map(|r| match r {
                Ok(t) => Ok((t.kind, t.value.to_vec())),
                Err(e) => Err(format!("{:?}", e)),
            })
            .collect(),
    }
}

fn snap_v1(h: &v1::Header<'_>) -> Snap {
    Snap {
        header: h.header.as_bytes().to_vec(),
        v1_addresses: Some(h.addresses),
        v2_fixed: None,
        address_bytes: h.addresses_str().as_bytes().to_vec(),
        tlv_bytes: h.protocol().as_bytes().to_vec(),
        tlvs: Vec::new(),
    }
}

/// Does the owned copy still expose exactly what the snapshot recorded?
fn owned_matches(o: &Owned, s: &Snap) -> Result<(), String> {
    match o {
        Owned::V1(h) => {
            if h.header.as_bytes() != s.header.as_slice() {
                return Err("header text changed".into());
            }
            if Some(h.addresses) != s.v1_addresses {
                return Err("addresses changed".into());
            }
            if h.addresses_str().as_bytes() != s.address_bytes.as_slice() {
                return Err("addresses_str() changed".into());
            }
            if h.protocol().as_bytes() != s.tlv_bytes.as_slice() {
                return Err("protocol() changed".into());
            }
            if h.to_string().as_bytes() != s.header.as_slice() {
                return Err("Display changed".into());
            }
        }
        Owned::V2(h, items) => {
            if h.as_bytes() != s.header.as_slice() {
                return Err("header bytes changed".into());
            }
            if Some((h.version, h.command, h.protocol, h.addresses)) != s.v2_fixed {
                return Err("version/command/protocol/addresses changed".into());
            }
            if h.address_bytes() != s.address_bytes.as_slice() {
                return Err("address_bytes() changed".into());
            }
            if h.tlv_bytes() != s.tlv_bytes.as_slice() {
                return Err("tlv_bytes() changed".into());
            }
            if h.len() != s.header.len() || h.length() + 16 != s.header.len() {
                return Err("len()/length() changed".into());
            }
            let now: Vec<Result<(u8, Vec<u8>), String>> = h
                .tlvs()
                .take(30_000)
                .map(|r| match r {
                    Ok(t) => Ok((t.kind, t.value.to_vec())),
                    Err(e) => Err(format!("{:?}", e)),
                })
                .collect();
            if now != s.tlvs {
                return Err("tlvs() of the owned header changed".into());
            }
            for (i, it) in items.iter().enumerate() {
                if let (Some(t), Some(Ok((k, v)))) = (it, s.tlvs.get(i)) {
                    if t.kind != *k || t.value.as_ref() != v.as_slice() || t.len() != v.len() {
                        return Err(format!("owned TLV #{} changed", i));
                    }
                }
            }
        }
    }
    Ok(())
}

impl C16 {
    fn exec_agreement(&self, sc: &Scenario, st: &mut Stats) -> Vec<Violation> {
        let mut out: Vec<Violation> = Vec::new();
        if let Some(f) = sc.tag("fault") {
            st.hit_dyn(format!("fault:{}", f));
        }
        let mut last_len = usize::MAX;
        let end = drive(sc, ReadSizing::Fill, |step| {
            if step.buf.len() == last_len {
                return true;
            }
            last_len = step.buf.len();
            // a replica set sees the same bytes; the text replicas need them to be a whole &str
            let s = match std::str::from_utf8(step.buf) {
                Ok(s) => s,
                Err(_) => {
                    st.hit("state_mid_character");
                    return true;
                }
            };
            st.oracle_evals += 1;
            let cr = s.find('\r');
            let e = match cr {
                Some(i) => (i + 2).min(s.len()),
                None => s.len(),
            };
            let boundary = s.is_char_boundary(e);
            match cr {
                None => match s.len() {
                    106 => st.hit("probe:no_cr_106"),
                    107 => st.hit("probe:no_cr_107"),
                    108 => st.hit("probe:no_cr_108"),
                    _ => {}
                },
                Some(i) if i + 1 == s.len() => st.hit("probe:cr_is_last_byte"),
                Some(i) => {
                    if s.as_bytes()[i + 1] >= 0x80 {
                        st.hit("probe:multibyte_after_cr");
                    }
                }
            }
            // in the runs that have other connections (§3.9), somebody else's calls come in
            // between the four replicas' calls
            let others = sc.recycled.is_some() || !sc.neighbors.is_empty();
            let between = |st: &mut Stats| {
                if others {
                    crate::recv::perturb();
                    st.hit("fault:calls_for_others_between_parses");
                }
            };
            let text = guard(|| v1::Header::try_from(s));
            between(st);
            let bytes = guard(|| v1::Header::try_from(s.as_bytes()));
            between(st);
            let fh = guard(|| s.parse::<v1::Header<'static>>());
            between(st);
            let fa = guard(|| s.parse::<v1::Addresses>());
            st.log(
                "state",
                s.len() as u64,
                (boundary as u64)
                    | ((matches!(text, Ok(Ok(_))) as u64) << 1)
                    | ((matches!(bytes, Ok(Ok(_))) as u64) << 2),
            );
            let mut fail: Option<(&'static str, Entry, String, String)> = None;
            if !boundary {
                // the examined line ends inside a multi-byte character: an error in all four
                st.hit("probe:line_ends_inside_character");
                let checks: [(&'static str, Entry, bool, Option<String>); 4] = [
                    ("text", Entry::V1Text, matches!(text, Ok(Err(_))), text.as_ref().err().cloned()),
                    ("bytes", Entry::V1Bytes, matches!(bytes, Ok(Err(_))), bytes.as_ref().err().cloned()),
                    ("fromstr_header", Entry::V1FromStrHeader, matches!(fh, Ok(Err(_))), fh.as_ref().err().cloned()),
                    ("fromstr_addresses", Entry::V1FromStrAddr, matches!(fa, Ok(Err(_))), fa.as_ref().err().cloned()),
                ];
                for (_name, entry, is_err, panic) in checks {
                    if !is_err {
                        let (res, detail) = match panic {
                            Some(p) => (panic_site(&p), format!("panicked: {}", p)),
                            None => ("Ok".to_string(), "accepted".to_string()),
                        };
                        fail = Some((
                            "not_an_error_when_line_ends_inside_character",
                            entry,
                            res,
                            format!(
                                "the examined line of {:?} ends inside a multi-byte character; {} {} instead of returning an error",
                                printable(s.as_bytes(), 120),
                                entry.name(),
                                detail
                            ),
                        ));
                        break;
                    }
                }
            } else {
                match (&text, &bytes, &fh, &fa) {
                    (Ok(t), Ok(b), Ok(h), Ok(a)) => {
                        // text vs bytes
                        let tb = match (t, b) {
                            (Ok(x), Ok(y)) => x == y,
                            (Err(x), Err(v1::BinaryParseError::Parse(y))) => x == y,
                            _ => false,
                        };
                        if !tb {
                            fail = Some((
                                "text_and_bytes_disagree",
                                Entry::V1Bytes,
                                brief(b.as_ref().map(|_| ()).map_err(|e| format!("{:?}", e))),
                                format!(
                                    "{:?}: text gives {}, bytes gives {}",
                                    printable(s.as_bytes(), 120),
                                    brief(t.as_ref().map(|_| ()).map_err(|e| format!("{:?}", e))),
                                    brief(b.as_ref().map(|_| ()).map_err(|e| format!("{:?}", e)))
                                ),
                            ));
                        } else {
                            let hh = match (t, h) {
                                (Ok(x), Ok(y)) => x == y && x.to_owned() == *y,
                                (Err(x), Err(y)) => x == y,
                                _ => false,
                            };
                            let aa = match (t, a) {
                                (Ok(x), Ok(y)) => x.addresses == *y,
                                (Err(x), Err(y)) => x == y,
                                _ => false,
                            };
                            if !hh {
                                fail = Some((
                                    "fromstr_header_disagrees",
                                    Entry::V1FromStrHeader,
                                    brief(h.as_ref().map(|_| ()).map_err(|e| format!("{:?}", e))),
                                    format!(
                                        "{:?}: text gives {}, FromStr<Header> gives {}",
                                        printable(s.as_bytes(), 120),
                                        brief(t.as_ref().map(|_| ()).map_err(|e| format!("{:?}", e))),
                                        brief(h.as_ref().map(|_| ()).map_err(|e| format!("{:?}", e)))
                                    ),
                                ));
                            } else if !aa {
                                fail = Some((
                                    "fromstr_addresses_disagrees",
                                    Entry::V1FromStrAddr,
                                    brief(a.as_ref().map(|_| ()).map_err(|e| format!("{:?}", e))),
                                    format!(
                                        "{:?}: text gives {}, FromStr<Addresses> gives {:?}",
                                        printable(s.as_bytes(), 120),
                                        brief(t.as_ref().map(|_| ()).map_err(|e| format!("{:?}", e))),
                                        a
                                    ),
                                ));
                            } else if t.is_ok() {
                                st.hit("probe:agreement_on_accept");
                            } else {
                                st.hit("probe:agreement_on_error");
                            }
                        }
                    }
                    _ => {
                        // a panic with a clean boundary is C03's to report
                        st.hit("skip:panic");
                    }
                }
            }
            if let Some((clause, entry, res, detail)) = fail {
                out.push(viol("C16", clause, entry, s.as_bytes(), res, detail));
                return false;
            }
            true
        });
        count_transport(st, sc, &end);
        out
    }

    fn exec_owned(&self, sc: &Scenario, st: &mut Stats) -> Vec<Violation> {
        let mut out: Vec<Violation> = Vec::new();
        let entry = sc.entry;
        let mut buf: Vec<u8> = Vec::new();
        let mut sent = 0usize;
        let mut owned: Option<(Owned, Snap)> = None;
        let mut clobbers = 0u64;
        let check = |o: &(Owned, Snap), when: &str, out: &mut Vec<Violation>, st: &mut Stats| -> bool {
            st.oracle_evals += 1;
            match guard(|| owned_matches(&o.0, &o.1)) {
                Ok(Ok(())) => true,
                Ok(Err(why)) => {
                    out.push(viol(
                        "C16",
                        "owned_copy_changed",
                        entry,
                        &o.1.header,
                        why.clone(),
                        format!("owned copy no longer matches its snapshot {}: {}", when, why),
                    ));
                    false
                }
                Err(_) => {
                    st.hit("skip:panic");
                    false
                }
            }
        };
        for ev in &sc.events {
            let n = match ev {
                Ev::Deliver(n) => (*n).min(sc.stream.len() - sent),
                _ => continue,
            };
            buf.extend_from_slice(&sc.stream[sent..sent + n]);
            sent += n;
            st.log("deliver", n as u64, buf.len() as u64);
            if let Some(o) = &owned {
                // the buffer that used to hold the header is being overwritten by later reads
                clobbers += 1;
                if !check(o, "after later reads overwrote the receive buffer", &mut out, st) {
                    return out;
                }
                continue;
            }
            // parse, compare owned with borrowed, snapshot
            let res = guard(|| -> Result<Option<(Owned, Snap, usize)>, (String, String)> {
                let input: &[u8] = &buf;
                let (o, s, hlen) = match entry {
                    Entry::V2 | Entry::Auto => {
                        let h2 = match entry {
                            Entry::V2 => v2::Header::try_from(input).ok(),
                            _ => match HeaderResult::parse(input) {
                                HeaderResult::V2(Ok(h)) => Some(h),
                                HeaderResult::V1(Ok(h)) => {
                                    let o = h.to_owned();
                                    if o != h {
                                        return Err(("owned_ne_borrowed".into(), "v1 to_owned() != original".into()));
                                    }
                                    let s = snap_v1(&h);
                                    let l = h.header.len();
                                    return Ok(Some((Owned::V1(o), s, l)));
                                }
                                _ => None,
                            },
                        };
                        let h = match h2 {
                            Some(h) => h,
                            None => return Ok(None),
                        };
                        let o = h.to_owned();
                        if o != h || h != o {
                            return Err(("owned_ne_borrowed".into(), "v2 to_owned() != original".into()));
                        }
                        if o.as_bytes() != h.as_bytes()
                            || o.address_bytes() != h.address_bytes()
                            || o.tlv_bytes() != h.tlv_bytes()
                            || o.length() != h.length()
                            || o.len() != h.len()
                            || o.address_family() != h.address_family()
                            || o.to_string() != h.to_string()
                        {
                            return Err(("owned_views_differ".into(), "v2 owned copy exposes different views".into()));
                        }
                        let mut items = Vec::new();
                        for (i, (a, b)) in h.tlvs().zip(o.tlvs()).enumerate() {
                            if i >= 30_000 {
                                break;
                            }
                            if a != b {
                                return Err(("owned_views_differ".into(), format!("TLV #{} differs between owned and borrowed header", i)));
                            }
                            match a {
                                Ok(t) => {
                                    let to = t.to_owned();
                                    if to != t || to.kind != t.kind || to.value != t.value || to.len() != t.len() || to.is_empty() != t.is_empty() {
                                        return Err(("owned_ne_borrowed".into(), format!("TLV #{} to_owned() != original", i)));
                                    }
                                    items.push(Some(to));
                                }
                                Err(_) => items.push(None),
                            }
                        }
                        let s = snap_v2(&h);
                        let l = h.len();
                        (Owned::V2(o, items), s, l)
                    }
                    _ => {
                        let h = match entry {
                            Entry::V1Bytes => v1::Header::try_from(input).ok(),
                            _ => v1::Header::try_from(crate::recv::text_view(input)).ok(),
                        };
                        let h = match h {
                            Some(h) => h,
                            None => return Ok(None),
                        };
                        let o = h.to_owned();
                        if o != h || h != o {
                            return Err(("owned_ne_borrowed".into(), "v1 to_owned() != original".into()));
                        }
                        if o.protocol() != h.protocol()
                            || o.addresses_str() != h.addresses_str()
                            || o.to_string() != h.to_string()
                            || o.header != h.header
                            || o.addresses != h.addresses
                        {
                            return Err(("owned_views_differ".into(), "v1 owned copy exposes different views".into()));
                        }
                        let s = snap_v1(&h);
                        let l = h.header.len();
                        (Owned::V1(o), s, l)
                    }
                };
                Ok(Some((o, s, hlen)))
            });
            match res {
                Err(_) => {
                    st.hit("skip:panic");
                    return out;
                }
                Ok(Err((clause, detail))) => {
                    out.push(viol("C16", &clause, entry, &buf, "mismatch".into(), detail));
                    return out;
                }
                Ok(Ok(None)) => {}
                Ok(Ok(Some((o, s, hlen)))) => {
                    st.hit("probe:owned_taken");
                    if matches!(o, Owned::V2(_, ref items) if items.iter().any(|x| x.is_some())) {
                        st.hit("probe:owned_tlv_taken");
                    }
                    // consume the header, compact, poison what is left behind
                    let hlen = hlen.min(buf.len());
                    let rest = buf.len() - hlen;
                    buf.copy_within(hlen.., 0);
                    for b in buf[rest..].iter_mut() {
                        *b = 0xA5;
                    }
                    buf.truncate(rest);
                    st.hit("probe:buffer_compacted_and_poisoned");
                    let pair = (o, s);
                    if !check(&pair, "after the header was consumed and the buffer compacted and poisoned", &mut out, st) {
                        return out;
                    }
                    owned = Some(pair);
                }
            }
        }
        if let Some(o) = &owned {
            if clobbers > 0 {
                st.hit("probe:buffer_overwritten_after_owned");
            }
            drop(buf);
            if !check(o, "after the receive buffer was dropped", &mut out, st) {
                return out;
            }
        }
        st.add("fault:reads", sc.events.len() as u64);
        out
    }
}

fn brief(r: Result<(), String>) -> String {
    match r {
        Ok(()) => "Ok".into(),
        Err(s) => s.split('(').take(2).collect::<Vec<_>>().join("("),
    }
}

impl Check for C16 {
    fn id(&self) -> &'static str {
        "C16"
    }
    fn runs(&self, tier: Tier) -> u64 {
        match tier {
            Tier::Quick => 600_000,
            Tier::Thorough => 100_000_000,
        }
    }
    fn generate(&self, rng: &mut Rng, index: u64, _tier: Tier) -> Scenario {
        let mut sc = Scenario::new("C16", "agreement");
        if index % 3 != 2 {
            let stream = gen_text_stream(rng, &mut sc);
            let style = *rng.pick(&[Style::ByteAtATime, Style::Random, Style::Random, Style::Whole]);
            sc.events = gen_schedule_style(rng, stream.len(), stream.len(), &[], style, 3, Ev::Stall, None);
            sc.intended_header_len = stream.len();
            sc.stream = stream;
        } else {
            sc.sub = "owned".into();
            sc.entry = *rng.pick(&[Entry::V1Bytes, Entry::V1Text, Entry::V2, Entry::Auto]);
            let v2share = match sc.entry {
                Entry::V2 => 100,
                Entry::Auto => 60,
                _ => 0,
            };
            let hs = gen_hop_stream(rng, false, true, v2share);
            let mut stream = hs.stream;
            // make sure later reads have something to overwrite the buffer with
            let extra = rng.range(0, 200);
            stream.extend(rng.bytes(extra));
            sc.intended_header_len = hs.wire.bytes.len();
            sc.events = gen_schedule(rng, stream.len(), hs.wire.bytes.len(), &hs.wire.hot_cuts(), 0);
            sc.stream = stream;
        }
        sc
    }
    fn execute(&self, sc: &Scenario, st: &mut Stats) -> Vec<Violation> {
        st.distinct(fnv(&sc.stream) ^ fnv(sc.sub.as_bytes()) ^ (sc.entry as u64));
        if sc.sub == "owned" {
            self.exec_owned(sc, st)
        } else {
            self.exec_agreement(sc, st)
        }
    }
    fn interference(&self) -> bool {
        true
    }
    fn required_probes(&self, _tier: Tier) -> Vec<&'static str> {
        vec![
            "probe:multibyte_after_cr",
            "probe:line_ends_inside_character",
            "probe:no_cr_106",
            "probe:no_cr_107",
            "probe:no_cr_108",
            "probe:cr_is_last_byte",
            "probe:agreement_on_accept",
            "probe:agreement_on_error",
            "probe:owned_taken",
            "probe:owned_tlv_taken",
            "probe:buffer_compacted_and_poisoned",
            "probe:buffer_overwritten_after_owned",
        ]
    }
    fn rule(&self) -> String {
        "two sub-batches. agreement (2/3 of the runs): one valid-UTF-8 stream (v1 lines with non-ASCII free text and trailers, a byte replaced by a multi-byte character biased to the position after the CR, CR-free text of 104-130 bytes, CR as last byte, token soup, sloppy endings) delivered under a seeded schedule to four replica receivers (text, bytes, FromStr<Header>, FromStr<Addresses>); after every delivery that leaves a whole &str their four real verdicts are compared as the property states. owned (1/3): a v1 or v2 stream through bytes / text / v2 / auto; on acceptance the receiver takes to_owned() (header and every TLV), snapshots every view independently, consumes the header, compacts and poisons the buffer, lets later reads overwrite it and finally drops it, re-checking the owned values against the snapshots at each point. Distinct by (stream hash, sub-batch, entry); every run is non-trivial.".into()
    }
    fn real_vs_stub(&self) -> serde_json::Value {
        json!({
            "real": ["v1::Header::try_from(&str)", "v1::Header::try_from(&[u8])", "FromStr for v1::Header", "FromStr for v1::Addresses", "v2::Header::try_from", "HeaderResult::parse", "to_owned on v1::Header, v2::Header, TypeLengthValue", "PartialEq and every view accessor on borrowed and owned values"],
            "stub": ["replica receivers, transport, buffer compaction / poisoning"],
            "note": "in safe Rust the 'remains valid' half of the owned-copy clause is a type-system guarantee; what the run can catch is an owned copy that is incomplete or altered"
        })
    }
    fn assumptions(&self) -> Vec<String> {
        vec![
            "agreement is judged only on buffers that are whole valid UTF-8 strings (a buffer ending inside a character is not a &str)".into(),
            "a panic of a text entry point when the examined line ends inside a character is reported here (the property demands an error); any other panic is left to C03".into(),
        ]
    }
}
