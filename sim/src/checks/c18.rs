//! C18 — the v1 verdict is final once the first CR plus one more byte, or 107
//! bytes without CR, have arrived. Bounded liveness at quiescence: a receiver
//! whose buffer satisfies that precondition must have decided; one that is still
//! waiting can be kept waiting for ever by a stalling peer.

use super::*;
use crate::engine::Tier;
use crate::recv::{drive, parse, view, ReadSizing};
use crate::rng::fnv;
use crate::scenario::printable;
use crate::transport::Style;
use crate::wire::{gen_junk, gen_v1_spec, V1Proto};
use serde_json::json;

pub struct C18;

const DIRECTED: &[&[u8]] = &[
    b"PROXY TCP4 1.1.1.1 2.2.2.2 80 443\r\n",
    b"PROXY UNKNOWN\r\n",
    b"PROX\r\n",
    b"PROXY \r\n",
    b"\r\n",
    b"PROXY TCP4 127.0.0.1 192.168.1.1 80 443\r\t",
];

fn after_cr_byte(rng: &mut Rng, line: &[u8]) -> Vec<u8> {
    match rng.below(10) {
        0 | 1 => vec![*line.last().unwrap_or(&b'x')],
        2 => vec![b'P'],
        3 => vec![b'T'],
        4 => vec![b'U'],
        5 => vec![b' '],
        6 => vec![0],
        7 => vec![b'\r'],
        8 => "\u{20ac}".as_bytes().to_vec(),
        _ => {
            let mut b = rng.byte() & 0x7f;
            if b == b'\n' {
                b = b'x';
            }
            vec![b]
        }
    }
}

impl Check for C18 {
    fn id(&self) -> &'static str {
        "C18"
    }
    fn runs(&self, tier: Tier) -> u64 {
        match tier {
            Tier::Quick => 600_000,
            Tier::Thorough => 150_000_000,
        }
    }
    fn generate(&self, rng: &mut Rng, index: u64, _tier: Tier) -> Scenario {
        let mut sc = Scenario::new("C18", "random");
        let mut stream: Vec<u8>;
        if (index as usize) < DIRECTED.len() {
            sc.sub = "directed".into();
            stream = DIRECTED[index as usize].to_vec();
            sc.set_tag("peer", "directed");
        } else {
            match rng.below(12) {
                0 => {
                    // well-formed line, then application data
                    let w = wire::gen_v1(rng, false);
                    let t = wire::gen_trailer(rng, &w).0;
                    stream = w.bytes;
                    stream.extend(t);
                    sc.set_tag("peer", "well_formed");
                }
                1 | 2 | 3 => {
                    // field list truncated after k fields, then terminated
                    let mut spec = gen_v1_spec(rng, true);
                    if spec.proto == V1Proto::Unknown {
                        spec.proto = if rng.chance(1, 2) {
                            V1Proto::Tcp4
                        } else {
                            V1Proto::Tcp6
                        };
                        spec.src = "1.2.3.4".into();
                        spec.dst = "::1".into();
                        spec.sport = "80".into();
                        spec.dport = "443".into();
                    }
                    let k = rng.below(5);
                    let fields = [&spec.src, &spec.dst, &spec.sport, &spec.dport];
                    let mut line = if spec.proto == V1Proto::Tcp4 {
                        b"PROXY TCP4".to_vec()
                    } else {
                        b"PROXY TCP6".to_vec()
                    };
                    for f in fields.iter().take(k) {
                        line.push(b' ');
                        line.extend_from_slice(f.as_bytes());
                    }
                    if rng.chance(1, 4) {
                        line.push(b' '); // trailing separator, nothing after it
                    }
                    stream = line.clone();
                    if rng.chance(2, 3) {
                        stream.extend_from_slice(b"\r\n");
                    } else {
                        stream.push(b'\r');
                        stream.extend(after_cr_byte(rng, &line));
                    }
                    sc.set_tag("peer", "too_few_fields");
                    sc.set_meta("fields", k as i64);
                }
                4 | 5 => {
                    // complete line whose CR is followed by something else than LF
                    let w = wire::gen_v1(rng, true);
                    let n = w.bytes.len();
                    let line = w.bytes[..n - 2].to_vec();
                    stream = line.clone();
                    stream.push(b'\r');
                    stream.extend(after_cr_byte(rng, &line));
                    if rng.chance(1, 2) {
                        stream.extend_from_slice(b"\nrest");
                    }
                    sc.set_tag("peer", "cr_then_non_lf");
                }
                6 => {
                    // CR-free filler around the 107-byte limit
                    let n = *rng.pick(&[100usize, 105, 106, 107, 108, 109, 150, 300]);
                    let head: &[u8] = *rng.pick(&[
                        &b""[..],
                        &b"PROXY "[..],
                        &b"PROXY TCP4 "[..],
                        &b"PROXY UNKNOWN "[..],
                        &b"PROXY TCP6 ::1 ::1 1 "[..],
                        &b"PROXY TCP4 1.1.1.1 1.1.1.1 1 1"[..],
                        &b"PROXY TCP4 1.1.1.1 1.1.1.1 "[..],
                        &b"PROXY TCP4 1.1.1.1 "[..],
                        &b"PROXY TCP4 "[..],
                        &b"PROXY TCP6 ::1 "[..],
                        &b"PROX"[..],
                    ]);
                    let fill = *rng.pick(b"a1 .:\n\0Y");
                    stream = head.to_vec();
                    while stream.len() < n {
                        stream.push(fill);
                    }
                    match rng.below(4) {
                        0 => stream.extend_from_slice(b"\r\n"),
                        // a CR that is (for a while) the last byte of an over-long line
                        1 => stream.push(b'\r'),
                        _ => {}
                    }
                    sc.set_tag("peer", "cr_free_filler");
                }
                7 | 8 => {
                    // UNKNOWN with many extra fields
                    let fields = rng.range(0, 40);
                    let mut line = b"PROXY UNKNOWN".to_vec();
                    for _ in 0..fields {
                        line.push(b' ');
                        let l = rng.range(0, 2);
                        for _ in 0..l {
                            line.push(*rng.pick(b"ab1.:\n"));
                        }
                    }
                    stream = line.clone();
                    if rng.chance(2, 3) {
                        stream.extend_from_slice(b"\r\n");
                    } else {
                        stream.push(b'\r');
                        stream.extend(after_cr_byte(rng, &line));
                    }
                    sc.set_tag("peer", "unknown_extra_fields");
                    sc.set_meta("fields", fields as i64);
                }
                9 => {
                    // keyword / protocol fragments around a CR
                    let frags: &[&[u8]] = &[
                        b"P", b"PR", b"PROX", b"PROXY", b"PROXY ", b"PROXY T", b"PROXY TC",
                        b"PROXY TCP", b"PROXY U", b"PROXY UNKNOW", b"PROXY TCP4", b"PROXY TCP6 ",
                        b"", b"X", b"PROXY  ", b"PROXYY",
                    ];
                    let f: &[u8] = *rng.pick(frags);
                    stream = f.to_vec();
                    stream.push(b'\r');
                    if rng.chance(1, 3) {
                        stream.push(b'\n');
                    } else {
                        stream.extend(after_cr_byte(rng, f));
                    }
                    sc.set_tag("peer", "fragment_cr");
                }
                _ => {
                    let (j, kind) = gen_junk(rng);
                    stream = j;
                    sc.set_tag("peer", kind);
                }
            }
        }
        sc.bufcap = 108;
        // drip-fed, then the peer stalls
        let style = *rng.pick(&[
            Style::ByteAtATime,
            Style::ByteAtATime,
            Style::Random,
            Style::Random,
            Style::Whole,
        ]);
        let cut_at = if rng.chance(1, 4) && !stream.is_empty() {
            Some(rng.range(0, stream.len()))
        } else {
            None
        };
        sc.events = gen_schedule_style(
            rng,
            stream.len(),
            stream.len(),
            &[],
            style,
            5,
            Ev::Stall,
            cut_at,
        );
        sc.intended_header_len = stream.len();
        sc.stream = stream;
        sc
    }

    fn execute(&self, sc: &Scenario, st: &mut Stats) -> Vec<Violation> {
        let mut out = Vec::new();
        let peer = sc.tag("peer").unwrap_or("");
        for &entry in &Entry::V1_ALL {
            let mut local: Vec<Violation> = Vec::new();
            let mut panicked = false;
            let mut p_held = false;
            // (length of the buffer at which the precondition first held)
            let mut final_since: Option<usize> = None;
            let end = drive(sc, ReadSizing::Fill, |step| {
                let b = view(entry, step.buf);
                let cr = b.iter().position(|c| *c == b'\r');
                let p = match cr {
                    Some(i) => b.len() > i + 1,
                    None => b.len() >= 107,
                };
                if entry.is_text() {
                    if let Some(i) = cr {
                        // a multi-byte character right after the CR: the precondition holds for the
                        // &str too (a panic here is C03's to report and is skipped below)
                        if b.len() > i + 1 && b[i + 1] >= 0x80 {
                            st.hit("probe:multibyte_after_cr_text_entry");
                        }
                    }
                }
                let v = match parse(entry, step.buf) {
                    Ok(v) => v,
                    Err(_) => {
                        panicked = true;
                        return false;
                    }
                };
                st.log("parse", b.len() as u64, v.is_complete() as u64);
                if cr.is_none() {
                    match b.len() {
                        106 => st.hit("probe:no_cr_106"),
                        107 => st.hit("probe:no_cr_107"),
                        108 => st.hit("probe:no_cr_108"),
                        _ => {}
                    }
                }
                if !p {
                    if let Some(at) = final_since {
                        // "final": the verdict was complete with fewer bytes (the precondition held
                        // at `at` bytes); more bytes must not reopen it
                        st.oracle_evals += 1;
                        st.hit("probe:finality_checked_after_precondition_lapsed");
                        if !v.is_complete() {
                            local.push(viol(
                                "C18",
                                "verdict_reopened",
                                entry,
                                b,
                                v.kind(),
                                format!(
                                    "the verdict was final with {} bytes; with {} bytes {:?} the result is the incomplete {} again",
                                    at,
                                    b.len(),
                                    printable(b, 140),
                                    v.kind()
                                ),
                            ));
                            return false;
                        }
                        // keep reading: a CR as last byte is the only way to get here
                        return true;
                    }
                }
                if p {
                    p_held = true;
                    if final_since.is_none() {
                        final_since = Some(b.len());
                    }
                    st.oracle_evals += 1;
                    if !v.is_complete() {
                        let clause = if cr.is_some() {
                            "undecided_after_first_line"
                        } else {
                            "undecided_at_107_bytes"
                        };
                        local.push(viol(
                            "C18",
                            clause,
                            entry,
                            b,
                            v.kind(),
                            format!(
                                "buffer {:?} ({} bytes, first CR at {:?}) still gives the incomplete result {}: a stalling peer keeps the receiver waiting for ever",
                                printable(b, 140),
                                b.len(),
                                cr,
                                v.kind()
                            ),
                        ));
                        return false;
                    }
                }
                // an undecided receiver keeps reading; a decided one keeps *observing* when the
                // buffer was CR-free (a later CR as last byte lapses the literal precondition)
                !v.is_complete() || (cr.is_none() && b.len() >= 107)
            });
            if entry == Entry::V1Bytes {
                count_transport(st, sc, &end);
                st.distinct(fnv(&sc.stream));
            }
            if panicked {
                st.hit("skip:panic_in_run");
                continue;
            }
            if p_held && entry == Entry::V1Bytes {
                match peer {
                    "too_few_fields" => match sc.meta("fields") {
                        Some(0) => st.hit("probe:terminated_fields_0"),
                        Some(1) => st.hit("probe:terminated_fields_1"),
                        Some(2) => st.hit("probe:terminated_fields_2"),
                        Some(3) => st.hit("probe:terminated_fields_3"),
                        _ => st.hit("probe:terminated_fields_4"),
                    },
                    "cr_then_non_lf" => {
                        if sc.stream.starts_with(b"PROXY TCP4") {
                            st.hit("probe:cr_then_non_lf_tcp4")
                        } else if sc.stream.starts_with(b"PROXY TCP6") {
                            st.hit("probe:cr_then_non_lf_tcp6")
                        } else {
                            st.hit("probe:cr_then_non_lf_unknown")
                        }
                    }
                    "unknown_extra_fields" => {
                        if sc.meta("fields").unwrap_or(0) >= 5 {
                            st.hit("probe:unknown_extra_fields_ge_5")
                        }
                    }
                    "fragment_cr" => st.hit("probe:fragment_then_cr"),
                    _ => {}
                }
            }
            out.extend(local);
        }
        out
    }

    fn interference(&self) -> bool {
        true
    }
    fn required_probes(&self, _tier: Tier) -> Vec<&'static str> {
        vec![
            "probe:terminated_fields_0",
            "probe:terminated_fields_1",
            "probe:terminated_fields_2",
            "probe:terminated_fields_3",
            "probe:terminated_fields_4",
            "probe:cr_then_non_lf_tcp4",
            "probe:cr_then_non_lf_tcp6",
            "probe:cr_then_non_lf_unknown",
            "probe:unknown_extra_fields_ge_5",
            "probe:fragment_then_cr",
            "probe:multibyte_after_cr_text_entry",
            "probe:no_cr_106",
            "probe:no_cr_107",
            "probe:no_cr_108",
            "fault:stall",
            "fault:eintr",
        ]
    }
    fn rule(&self) -> String {
        "one run = one adversarial peer script (well-formed line; field list truncated after 0-4 fields then terminated; CR followed by a byte other than LF; CR-free filler of 100-300 bytes; UNKNOWN with 0-40 extra fields; keyword/protocol fragment followed by CR; junk) drip-fed under a seeded schedule into a 108-byte receiver that then sees the peer stall, once per v1 entry point. At every receiver step where the buffer contains a first CR plus one more byte, or 107 CR-free bytes, the verdict must be complete. Distinct by hash of the stream; non-trivial = every run (each evaluates the precondition at every step).".into()
    }
    fn real_vs_stub(&self) -> serde_json::Value {
        json!({
            "real": ["v1::Header::try_from(&[u8])", "v1::Header::try_from(&str)", "FromStr for v1::Header", "FromStr for v1::Addresses", "PartialResult::is_complete"],
            "stub": ["stalling peer, transport schedule, 108-byte receiver loop"]
        })
    }
    fn assumptions(&self) -> Vec<String> {
        vec![
            "a panic of an entry point is C03's to report; the run is skipped and counted here".into(),
            "a 107-byte buffer whose last byte is its first CR may be incomplete: the precondition demands a byte after the CR".into(),
        ]
    }
}
