//! C12 — a single malformed element is rejected terminally and blamed on the
//! right field. Single-fault enumeration: base = a complete well-formed header
//! that the tree accepts; fault = replace exactly one element by a spelling that
//! is invalid for that element and does not disturb the tokenisation of the
//! others; the corrupted stream is delivered under a seeded segmentation and the
//! verdict on the complete corrupted header is judged.

use super::*;
use crate::engine::Tier;
use crate::recv::{drive, parse, ReadSizing, Verdict};
use crate::rng::fnv;
use crate::scenario::printable;
use crate::wire::{assemble_v2, gen_v2_spec, FAMILY_SIZE};
use ppp::v2::ParseError as E2;
use ppp::HeaderResult;
use serde_json::json;

pub struct C12;

/// One corruption of a base header.
struct Corruption {
    element: &'static str,
    what: String,
    stream: Vec<u8>,
    expect: Expect,
    /// enumerated (so that indices are stable across bases) but not applicable to this base
    skip: bool,
}

enum Expect {
    /// v1 error kind (as printed by Verdict::kind) on bytes / text / auto
    V1(&'static str),
    /// v1 error kind on the text entry point; the byte entry points (whose window ends inside
    /// the character) only have to be terminal
    V1TextKind(&'static str),
    /// v1 error kind on the byte entry points only
    V1BytesOnly(&'static str),
    /// exact v2 error on the v2 entry point; terminal on auto
    V2(E2),
}

fn replace(base: &[u8], start: usize, end: usize, with: &[u8]) -> Vec<u8> {
    let mut v = base[..start].to_vec();
    v.extend_from_slice(with);
    v.extend_from_slice(&base[end..]);
    v
}

/// Spans of the space-separated fields of an accepted ASCII v1 line (without CRLF).
fn v1_fields(line: &[u8]) -> Vec<(usize, usize)> {
    let mut out = Vec::new();
    let mut s = 0;
    for (i, b) in line.iter().enumerate() {
        if *b == b' ' {
            out.push((s, i));
            s = i + 1;
        }
    }
    out.push((s, line.len()));
    out
}

pub fn v1_corruption_streams(base: &[u8]) -> Vec<Vec<u8>> {
    v1_corruptions(base).into_iter().filter(|c| !c.skip).map(|c| c.stream).collect()
}

fn v1_corruptions(base: &[u8]) -> Vec<Corruption> {
    let mut out = Vec::new();
    let n = base.len();
    if n < 2 || &base[n - 2..] != b"\r\n" {
        return out;
    }
    let line = &base[..n - 2];
    let is_unknown = line.starts_with(b"PROXY UNKNOWN");
    let fields = v1_fields(line);
    let mut push = |element: &'static str, what: String, stream: Vec<u8>, expect: Expect| {
        // the line limit is an element of its own: keep every other corruption within it
        let first_cr = stream.iter().position(|c| *c == b'\r').unwrap_or(stream.len());
        let skip = element != "length" && first_cr + 2 > 107;
        out.push(Corruption {
            element,
            what,
            stream,
            expect,
            skip,
        });
    };
    // keyword
    for r in ["proxy", "PROX", "PROXYY", "PROXZ", "", "Proxy", "PROXY\t", "ROXY"] {
        push(
            "keyword",
            format!("keyword -> {:?}", r),
            replace(base, 0, 5, r.as_bytes()),
            Expect::V1("InvalidPrefix"),
        );
    }
    // protocol
    let (ps, pe) = if is_unknown { (6, 13) } else { (6, 10) };
    for r in [
        "tcp4", "TCP", "TCP5", "TCP44", "UDP4", "UNKNOW", "UNKNOWNN", "unknown", "", "TCP4\t",
        "TCP7", "4TCP", "T", "U",
    ] {
        push(
            "protocol",
            format!("protocol -> {:?}", r),
            replace(base, ps, pe, r.as_bytes()),
            Expect::V1("InvalidProtocol"),
        );
    }
    // every single-character insertion of a sign / digit / punctuation character into the
    // keyword and into the protocol (what a lenient numeric or prefix match lets through)
    for (element, s, e, kind) in [
        ("keyword", 0usize, 5usize, "InvalidPrefix"),
        ("protocol", ps, pe, "InvalidProtocol"),
    ] {
        let word = &base[s..e];
        for at in 0..=word.len() {
            for ch in [b'0', b'+', b'-', b'4', b'6', b'.', b'_', b'\t'] {
                let mut w = word.to_vec();
                w.insert(at, ch);
                // still invalid? (inserting into UNKNOWN / TCPx never yields another valid word)
                if matches!(w.as_slice(), b"PROXY" | b"TCP4" | b"TCP6" | b"UNKNOWN") {
                    continue;
                }
                push(
                    element,
                    format!("{} -> {:?}", element, String::from_utf8_lossy(&w)),
                    replace(base, s, e, &w),
                    Expect::V1(kind),
                );
            }
        }
    }
    if !is_unknown && fields.len() == 6 {
        let v4 = line.starts_with(b"PROXY TCP4");
        // spellings other resolvers accept (inet_aton short / hex / octal / decimal forms, zone
        // ids, brackets, prefix lengths, ports) are part of the dictionary
        let bad_addr: Vec<&str> = if v4 {
            vec![
                "", "x", "1.2.3", "1.2.3.4.5", "256.1.1.1", "1.2.3.04", "::1", "1..2.3",
                "1.2.3.4.", ".1.2.3.4", "1.2.3.-4", "0x1.2.3.4", "1.2.3.4/8", "localhost",
                "127.1", "2130706433", "0177.0.0.1", "0x7f000001", "::ffff:1.2.3.4", "1.2.3.4:80",
                "+1.2.3.4", "1.2.3.4%1",
            ]
        } else {
            vec![
                "", "x", "1.2.3.4", ":::", "1::2::3", "g::1", "1:2:3:4:5:6:7", "1:2:3:4:5:6:7:8:9",
                "00001::", ":1", "1:", "::1%eth0", "[::1]", "1.2.3.4::", "fe80::1%eth0", "fe80::1%1",
                "FE80::2%lo0", "fe80::1%25eth0", "::1/128", "[::1]:80", "::ffff:1.2.3.256", "::1.2.3",
            ]
        };
        for (fi, name, kind) in [
            (2usize, "source address", "InvalidSourceAddress"),
            (3usize, "destination address", "InvalidDestinationAddress"),
        ] {
            let (s, e) = fields[fi];
            for r in &bad_addr {
                push(
                    if fi == 2 { "src_addr" } else { "dst_addr" },
                    format!("{} -> {:?}", name, r),
                    replace(base, s, e, r.as_bytes()),
                    Expect::V1(kind),
                );
            }
        }
        // (the long ones wrap to 80 in 16, 32, 64 and 128 bits)
        let bad_port = [
            "", "65536", "99999", "-1", "+80", "080", "00", "8a", "0x50", "\u{ff18}\u{ff10}",
            "+0", "-0", "1e3", "80.", "655360", "٨٠", "65616", "4294967376", "18446744073709551696",
            "80\t", "80\u{b}", "80\u{c}", "80\n", "\t80", "\n80", "80\u{a0}", "80\u{85}", "80\u{2028}", "8\t0",
            "99999999999999999999", "340282366920938463463374607431768211536",
        ];
        for (fi, name, kind) in [
            (4usize, "source port", "InvalidSourcePort"),
            (5usize, "destination port", "InvalidDestinationPort"),
        ] {
            let (s, e) = fields[fi];
            for r in &bad_port {
                push(
                    if fi == 4 { "src_port" } else { "dst_port" },
                    format!("{} -> {:?}", name, r),
                    replace(base, s, e, r.as_bytes()),
                    Expect::V1(kind),
                );
            }
        }
    }
    if !is_unknown && fields.len() == 6 && line.starts_with(b"PROXY TCP6") {
        // the 107-byte limit on a line whose every field is valid: two 45-character addresses
        let long = "ffff:ffff:ffff:ffff:ffff:ffff:255.255.255.255";
        for (src, dst, sp, dp) in [
            (long, long, "65535", "65535"),
            (long, "ffff:ffff:ffff:ffff:ffff:ffff:ffff:ffff", "65535", "10000"),
            (long, "ffff:ffff:ffff:ffff:ffff:ffff:ffff:fff", "65535", "65535"),
        ] {
            let l = format!("PROXY TCP6 {} {} {} {}\r\n", src, dst, sp, dp);
            if l.len() > 107 {
                push(
                    "length",
                    format!("TCP6 line of {} bytes whose fields are all valid", l.len()),
                    l.into_bytes(),
                    Expect::V1("HeaderTooLong"),
                );
            }
        }
    }
    // the byte after CR: every ASCII byte other than LF
    for b in 0u8..128 {
        if b == b'\n' {
            continue;
        }
        push(
            "byte_after_cr",
            format!("byte after CR -> {:#04x}", b),
            replace(base, n - 1, n, &[b]),
            Expect::V1("InvalidSuffix"),
        );
    }
    // ... also with application data behind it, so that the whole input exceeds 107 bytes
    for b in [b'X', b'\r', 0u8, b' '] {
        let mut s = replace(base, n - 1, n, &[b]);
        s.extend(std::iter::repeat(b'z').take(120));
        s.extend_from_slice(b"\r\n");
        push(
            "byte_after_cr",
            format!("byte after CR -> {:#04x}, then 122 bytes of data", b),
            s,
            Expect::V1("InvalidSuffix"),
        );
    }
    // ... and a multi-byte character in place of the LF (alone, and followed by data)
    for (m, tail) in [("\u{e9}", 0usize), ("\u{20ac}", 0), ("\u{1f600}", 0), ("\u{e9}", 120), ("\u{20ac}", 200)] {
        let mut s = replace(base, n - 1, n, m.as_bytes());
        s.extend(std::iter::repeat(b'z').take(tail));
        push(
            "byte_after_cr",
            format!("byte after CR -> {:?}, then {} bytes of data", m, tail),
            s,
            Expect::V1TextKind("InvalidSuffix"),
        );
    }
    if is_unknown {
        // the 107-byte limit: pad the free text
        for total in [108usize, 109, 120, 200] {
            let mut l = line.to_vec();
            if l.len() == 13 {
                l.push(b' ');
            }
            while l.len() + 2 < total {
                l.push(b'a');
            }
            l.extend_from_slice(b"\r\n");
            push(
                "length",
                format!("line padded to {} bytes", total),
                l,
                Expect::V1("HeaderTooLong"),
            );
        }
        // ... and padded with multi-byte characters: over 107 bytes although not over 107 characters
        for (pad, total_chars) in [("\u{e9}", 107usize), ("\u{20ac}", 100), ("\u{1f600}", 60)] {
            let mut l = String::from_utf8_lossy(line).into_owned();
            if l.len() == 13 {
                l.push(' ');
            }
            // fill with ASCII up to the character budget minus a block of multi-byte characters
            let extra = 3usize;
            while l.chars().count() + extra + 2 < total_chars {
                l.push('a');
            }
            for _ in 0..extra {
                l.push_str(pad);
            }
            while l.len() + 2 < 108 {
                l.push_str(pad);
            }
            l.push_str("\r\n");
            push(
                "length",
                format!(
                    "line padded to {} bytes / {} characters with multi-byte text",
                    l.len(),
                    l.chars().count()
                ),
                l.into_bytes(),
                Expect::V1("HeaderTooLong"),
            );
        }
        // invalid UTF-8 inside the free text (byte entry points only)
        let bads: [&[u8]; 6] = [
            &[0xff],
            &[0xc3],
            &[0xe2, 0x82],
            &[0xc0, 0x80],
            &[0xed, 0xa0, 0x80],
            &[0x80],
        ];
        for bad in bads {
            let mut l = line.to_vec();
            if l.len() == 13 {
                l.push(b' ');
            }
            l.extend_from_slice(bad);
            l.extend_from_slice(b"\r\n");
            push(
                "utf8",
                format!("invalid UTF-8 {:02x?} in the free text", bad),
                l,
                Expect::V1BytesOnly("InvalidUtf8"),
            );
        }
    }
    out
}

fn v2_corruptions(base: &[u8]) -> Vec<Corruption> {
    let mut out = Vec::new();
    if base.len() < 16 {
        return out;
    }
    // signature: every byte x every wrong value
    for i in 0..12 {
        for val in 0u16..256 {
            let val = val as u8;
            if val == base[i] {
                continue;
            }
            let mut s = base.to_vec();
            s[i] = val;
            out.push(Corruption {
                element: "signature",
                what: format!("signature byte {} -> {:#04x}", i, val),
                stream: s,
                expect: Expect::V2(E2::Prefix),
                skip: false,
            });
        }
    }
    for nib in 0u8..16 {
        if nib != 2 {
            let mut s = base.to_vec();
            s[12] = (nib << 4) | (base[12] & 0x0f);
            out.push(Corruption {
                element: "version",
                what: format!("version nibble -> {:#x}", nib),
                stream: s,
                expect: Expect::V2(E2::Version(nib << 4)),
                skip: false,
            });
        }
        if nib > 1 {
            let mut s = base.to_vec();
            s[12] = (base[12] & 0xf0) | nib;
            out.push(Corruption {
                element: "command",
                what: format!("command nibble -> {:#x}", nib),
                stream: s,
                expect: Expect::V2(E2::Command(nib)),
                skip: false,
            });
        }
        if nib > 3 {
            let mut s = base.to_vec();
            s[13] = (nib << 4) | (base[13] & 0x0f);
            out.push(Corruption {
                element: "family",
                what: format!("family nibble -> {:#x}", nib),
                stream: s,
                expect: Expect::V2(E2::AddressFamily(nib << 4)),
                skip: false,
            });
        }
        if nib > 2 {
            let mut s = base.to_vec();
            s[13] = (base[13] & 0xf0) | nib;
            out.push(Corruption {
                element: "transport",
                what: format!("transport nibble -> {:#x}", nib),
                stream: s,
                expect: Expect::V2(E2::Protocol(nib)),
                skip: false,
            });
        }
    }
    let fam = (base[13] >> 4) as usize;
    if fam < 4 {
        let size = FAMILY_SIZE[fam];
        for l in 0..size {
            let mut s = base.to_vec();
            s[14..16].copy_from_slice(&(l as u16).to_be_bytes());
            out.push(Corruption {
                element: "length",
                what: format!("declared length -> {} (family needs {})", l, size),
                stream: s,
                expect: Expect::V2(E2::InvalidAddresses(l, size)),
                skip: false,
            });
        }
    }
    out
}

fn v1_kind(v: &Verdict) -> String {
    // strip the "V1:" prefix the auto entry adds
    let k = v.kind();
    k.strip_prefix("V1:").map(|s| s.to_string()).unwrap_or(k)
}

impl Check for C12 {
    fn id(&self) -> &'static str {
        "C12"
    }
    fn level(&self) -> &'static str {
        "fault_enumeration"
    }
    fn runs(&self, tier: Tier) -> u64 {
        match tier {
            Tier::Quick => 3_000 + 24 * 2,
            Tier::Thorough => 600_000 + 24 * 400,
        }
    }
    fn exhaustive(&self, _tier: Tier) -> bool {
        false
    }
    fn generate(&self, rng: &mut Rng, index: u64, tier: Tier) -> Scenario {
        let mut sc = Scenario::new("C12", "v1");
        let v2_bases = match tier {
            Tier::Quick => 24 * 2,
            Tier::Thorough => 24 * 400,
        };
        let (stream, hot) = if index < v2_bases {
            // every valid control pair in turn
            sc.sub = "v2".into();
            let pair = (index % 24) as u8;
            let mut spec = gen_v2_spec(rng, false);
            spec.cmd = pair % 2;
            spec.fam = (pair / 2) % 4;
            spec.proto = pair / 8;
            let fsize = FAMILY_SIZE[spec.fam as usize];
            if spec.fam != 0 {
                spec.addr = rng.bytes(fsize);
            }
            let w = assemble_v2(&spec);
            let hot = w.hot_cuts();
            (w.bytes, hot)
        } else {
            let w = wire::gen_v1(rng, true);
            let hot = w.hot_cuts();
            (w.bytes, hot)
        };
        sc.intended_header_len = stream.len();
        sc.events = gen_schedule(rng, stream.len(), stream.len(), &hot, 3);
        sc.stream = stream;
        sc.set_meta("which", -1);
        sc
    }

    fn focus(&self, sc: &Scenario, v: &Violation) -> Option<Scenario> {
        let w = v.focus?;
        let mut c = sc.clone();
        c.set_meta("which", w);
        Some(c)
    }

    fn shrink_extra(&self, sc: &Scenario) -> Vec<Scenario> {
        // canonical bases of the same protocol kind keep the corruption indices valid
        let mut out = Vec::new();
        let canon: &[u8] = if sc.stream.starts_with(b"PROXY TCP4") {
            b"PROXY TCP4 1.1.1.1 1.1.1.1 1 1\r\n"
        } else if sc.stream.starts_with(b"PROXY TCP6") {
            b"PROXY TCP6 ::1 ::1 1 1\r\n"
        } else if sc.stream.starts_with(b"PROXY UNKNOWN") {
            b"PROXY UNKNOWN\r\n"
        } else {
            return out;
        };
        if sc.stream != canon {
            let mut c = sc.clone();
            c.stream = canon.to_vec();
            c.intended_header_len = canon.len();
            c.events = vec![Ev::Deliver(canon.len()), Ev::Stall];
            out.push(c);
        }
        out
    }

    fn shrink_stream(&self) -> bool {
        // the stream is the *base*; editing it would silently change which element is corrupted
        false
    }

    fn execute(&self, sc: &Scenario, st: &mut Stats) -> Vec<Violation> {
        let mut out = Vec::new();
        let base = &sc.stream;
        let v2 = is_v2_stream(base);
        let which = sc.meta("which").unwrap_or(-1);
        // precondition: the tree accepts the base through every entry point used below
        let entries: &[Entry] = if v2 {
            &[Entry::V2, Entry::Auto]
        } else {
            &[Entry::V1Bytes, Entry::V1Text, Entry::Auto]
        };
        for &e in entries {
            match parse(e, base) {
                Ok(v) if v.is_ok() && v.header_len() == Some(base.len()) => {}
                _ => {
                    st.hit("skip:base_not_accepted");
                    return out;
                }
            }
        }
        if !v2 && !base.is_ascii() {
            st.hit("skip:non_ascii_base");
            return out;
        }
        st.hit(if v2 { "probe:v2_base" } else { "probe:v1_base" });
        st.distinct(fnv(base));
        let corruptions = if v2 {
            v2_corruptions(base)
        } else {
            v1_corruptions(base)
        };
        for (ci, c) in corruptions.iter().enumerate() {
            if (which >= 0 && which as usize != ci) || c.skip {
                continue;
            }
            st.hit_dyn(format!("fault:corrupt_{}", c.element));
            // deliver the corrupted stream under the scenario's segmentation, then flush
            let mut run = sc.clone();
            run.stream = c.stream.clone();
            run.events
                .retain(|e| !matches!(e, Ev::Stall | Ev::Eof | Ev::Reset));
            run.events.push(Ev::Deliver(1 << 20));
            run.events.push(Ev::Stall);
            run.bufcap = 0;
            for &entry in entries {
                if matches!(c.expect, Expect::V1BytesOnly(_)) && entry == Entry::V1Text {
                    continue;
                }
                // the verdict on the complete corrupted header
                let mut last: Option<(bool, bool, String, Option<E2>)> = None;
                let mut panicked = false;
                drive(&run, ReadSizing::Fill, |step| {
                    match parse(entry, step.buf) {
                        Ok(v) => {
                            st.log("parse", step.buf.len() as u64, v.is_complete() as u64);
                            let e2 = match &v {
                                Verdict::V2(Err(e)) => Some(clone_e2(e)),
                                Verdict::Auto(HeaderResult::V2(Err(e))) => Some(clone_e2(e)),
                                _ => None,
                            };
                            last = Some((v.is_ok(), v.is_complete(), v1_kind(&v), e2));
                        }
                        Err(_) => panicked = true,
                    }
                    !panicked
                });
                if panicked {
                    st.hit("skip:panic_in_run");
                    continue;
                }
                let (ok, complete, kind, e2) = match last {
                    Some(x) => x,
                    None => continue,
                };
                st.oracle_evals += 1;
                let mut fail: Option<(&'static str, String)> = None;
                if ok {
                    fail = Some(("corrupted_header_accepted", "accepted".into()));
                } else if !complete {
                    fail = Some(("corrupted_header_incomplete", kind.clone()));
                } else {
                    match (&c.expect, entry) {
                        (Expect::V1(k), _) | (Expect::V1BytesOnly(k), _) => {
                            if kind != *k {
                                fail = Some(("wrong_element_blamed", kind.clone()));
                            }
                        }
                        (Expect::V1TextKind(k), Entry::V1Text) => {
                            if kind != *k {
                                fail = Some(("wrong_element_blamed", kind.clone()));
                            }
                        }
                        // the byte window ends inside the character: terminal is all that is asked
                        (Expect::V1TextKind(_), _) => {}
                        (Expect::V2(want), Entry::V2) => {
                            if e2.as_ref() != Some(want) {
                                fail = Some(("wrong_element_blamed", kind.clone()));
                            }
                        }
                        // auto falls back to the text parser after a terminal v2 error (C06):
                        // only "terminal" is demanded there
                        (Expect::V2(_), _) => {}
                    }
                }
                if let Some((clause, got)) = fail {
                    let mut v = viol(
                        "C12",
                        clause,
                        entry,
                        &c.stream,
                        got.clone(),
                        format!(
                            "base {:?} with {}: got {}, expected a terminal error naming the {} ({})",
                            printable(base, 120),
                            c.what,
                            got,
                            c.element,
                            match &c.expect {
                                Expect::V1(k) | Expect::V1BytesOnly(k) | Expect::V1TextKind(k) => k.to_string(),
                                Expect::V2(e) => format!("{:?}", e),
                            }
                        ),
                    );
                    // signatures of enumerated faults name the element, not the whole input shape
                    v.shape = format!("{}:{}", c.element, short_what(&c.what));
                    v.focus = Some(ci as i64);
                    out.push(v);
                }
            }
        }
        out
    }

    fn required_probes(&self, _tier: Tier) -> Vec<&'static str> {
        vec!["probe:v1_base", "probe:v2_base"]
    }
    fn rule(&self) -> String {
        "one run = one accepted base header (run indices below 24*k: v2, every valid control pair in turn; the rest: v1 lines) x every single-element corruption of it (v1: 8 keyword, 14 protocol, 14+14 address, 16+16 port spellings, 127 bytes after CR, 4 over-long paddings, 6 invalid UTF-8 sequences; v2: 12x255 signature bytes, 15 version, 14 command, 12 family, 13 transport nibbles, every declared length below the family size), each delivered under the run's seeded segmentation and judged on the verdict for the complete corrupted header via bytes / text / auto (v1) or v2 / auto (v2). Distinct by hash of the base; non-trivial = base accepted by the tree. The v2 element x value space is enumerated completely for every base; the space of bases is sampled.".into()
    }
    fn real_vs_stub(&self) -> serde_json::Value {
        json!({
            "real": ["v1 bytes / text entry points", "v2::Header::try_from", "HeaderResult::parse", "PartialResult::is_complete", "error values compared with PartialEq"],
            "stub": ["single-element fault injector (knows which element it broke)", "transport segmentation", "receiver loop"]
        })
    }
    fn assumptions(&self) -> Vec<String> {
        vec![
            "the other elements are valid by construction and by the accepted-base precondition; replacements that could be legal for the element (another valid keyword, a sufficient length, another valid nibble) are excluded".into(),
            "on the auto entry point a v2 corruption only has to be terminal: C06 makes it fall back to the text parser, so the v2 kind is not demanded there".into(),
            "corruptions that would push a v1 line past 107 bytes are skipped unless the element under test is the length".into(),
        ]
    }
}

fn short_what(w: &str) -> String {
    w.chars().take(48).collect()
}

fn clone_e2(e: &E2) -> E2 {
    match e {
        E2::Incomplete(a) => E2::Incomplete(*a),
        E2::Prefix => E2::Prefix,
        E2::Version(a) => E2::Version(*a),
        E2::Command(a) => E2::Command(*a),
        E2::AddressFamily(a) => E2::AddressFamily(*a),
        E2::Protocol(a) => E2::Protocol(*a),
        E2::Partial(a, b) => E2::Partial(*a, *b),
        E2::InvalidAddresses(a, b) => E2::InvalidAddresses(*a, *b),
        E2::InvalidTLV(a, b) => E2::InvalidTLV(*a, *b),
        E2::Leftovers(a) => E2::Leftovers(*a),
        // a variant this harness does not know (the tree under test may have gained one): it is
        // none of the kinds the property names, which is all the comparison needs to know
        #[allow(unreachable_patterns)]
        _ => E2::Leftovers(usize::MAX),
    }
}
