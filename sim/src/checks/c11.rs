//! C11 — TLV iteration yields exactly the standard type-length-value walk and
//! then stops. A TLV section is a log of length-prefixed records and the iterator
//! is its recovery scan: the section is torn by a sender whose declared length
//! cuts its TLV area (real `Builder::set_length`), by a corrupted length byte, or
//! by a junk peer; the iterator is driven by a seeded history (next until None,
//! three more, copies taken mid-way) and compared with a 10-line reference walker.

use super::*;
use crate::engine::Tier;
use crate::recv::{drive, guard, ReadSizing};
use crate::rng::fnv;
use crate::scenario::printable;
use crate::wire::{assemble_v2, build_v2_real, gen_v2_spec, FAMILY_SIZE};
use ppp::v2::{self, ParseError as E2, TypeLengthValues};
use ppp::HeaderResult;
use serde_json::json;

pub struct C11;

#[derive(Debug, Clone)]
enum Item {
    /// `start` is the offset of the value inside the section, or `UNKNOWN` when the yielded
    /// value does not point into the section (an owned copy): then only the content is compared
    Ok {
        kind: u8,
        start: usize,
        len: usize,
        content: u64,
    },
    /// reference only: fewer than three bytes remain; the property asks for exactly one error
    /// item here and does not say which, so it matches any observed error
    ShortTail,
    /// observed only: an error other than InvalidTLV
    OtherError,
    Invalid(u8, u16),
}

const UNKNOWN: usize = usize::MAX;

impl PartialEq for Item {
    fn eq(&self, other: &Item) -> bool {
        match (self, other) {
            (
                Item::Ok {
                    kind: k1,
                    start: s1,
                    len: l1,
                    content: c1,
                },
                Item::Ok {
                    kind: k2,
                    start: s2,
                    len: l2,
                    content: c2,
                },
            ) => k1 == k2 && l1 == l2 && c1 == c2 && (s1 == s2 || *s1 == UNKNOWN || *s2 == UNKNOWN),
            (Item::ShortTail, Item::OtherError)
            | (Item::OtherError, Item::ShortTail)
            | (Item::ShortTail, Item::Invalid(..))
            | (Item::Invalid(..), Item::ShortTail)
            | (Item::ShortTail, Item::ShortTail)
            | (Item::OtherError, Item::OtherError) => true,
            (Item::Invalid(a, b), Item::Invalid(c, d)) => a == c && b == d,
            _ => false,
        }
    }
}

/// The reference: read type, big-endian 16-bit length, that many bytes; fewer than
/// three bytes left => one error item (the property does not say which); value overruns =>
/// one InvalidTLV(type, declared); then stop. Shares no code with the crate.
fn reference(section: &[u8]) -> Vec<Item> {
    let mut out = Vec::new();
    let mut off = 0usize;
    while off < section.len() {
        let rem = section.len() - off;
        if rem < 3 {
            out.push(Item::ShortTail);
            break;
        }
        let kind = section[off];
        let l = ((section[off + 1] as usize) << 8) | section[off + 2] as usize;
        if rem < 3 + l {
            out.push(Item::Invalid(kind, l as u16));
            break;
        }
        out.push(Item::Ok {
            kind,
            start: off + 3,
            len: l,
            content: fnv(&section[off + 3..off + 3 + l]),
        });
        off += 3 + l;
    }
    out
}

fn to_item(x: Result<v2::TypeLengthValue<'_>, E2>, base: (*const u8, usize)) -> Item {
    match x {
        Ok(t) => {
            let p = t.value.as_ptr() as usize;
            let b = base.0 as usize;
            // offset inside the section if the value is borrowed from it
            let start = if p >= b && p + t.value.len() <= b + base.1 {
                p - b
            } else {
                UNKNOWN
            };
            Item::Ok {
                kind: t.kind,
                start,
                len: t.value.len(),
                content: fnv(&t.value),
            }
        }
        Err(E2::InvalidTLV(k, l)) => Item::Invalid(k, l),
        Err(_) => Item::OtherError,
    }
}

/// What the real iterator yields, with value offsets relative to `base`.
fn observe(it: &mut TypeLengthValues<'_>, base: (*const u8, usize), limit: usize) -> Vec<Item> {
    let mut out = Vec::new();
    while out.len() < limit {
        match it.next() {
            None => break,
            Some(x) => out.push(to_item(x, base)),
        }
    }
    out
}

struct Judge<'s> {
    st: &'s mut Stats,
}

impl<'s> Judge<'s> {
    /// Compare the real iteration of `section` (obtained through `make`) with the reference.
    fn judge(
        &mut self,
        section: &[u8],
        mut it: TypeLengthValues<'_>,
        aux: u64,
        via: &'static str,
    ) -> Option<(&'static str, String, String)> {
        let st = &mut *self.st;
        let want = reference(section);
        st.oracle_evals += 1;
        st.log(via, section.len() as u64, want.len() as u64);
        // reach probes
        for w in &want {
            match w {
                Item::Ok { len, start, .. } => {
                    match *len {
                        0 => st.hit("probe:tlv_len_0"),
                        1 => st.hit("probe:tlv_len_1"),
                        255 => st.hit("probe:tlv_len_255"),
                        256 => st.hit("probe:tlv_len_256"),
                        65535 => st.hit("probe:tlv_len_65535"),
                        _ => {}
                    }
                    if start + len == section.len() {
                        st.hit("probe:tlv_exact_fit");
                    }
                }
                Item::ShortTail => {
                    let consumed: usize = want
                        .iter()
                        .map(|x| match x {
                            Item::Ok { len, .. } => 3 + len,
                            _ => 0,
                        })
                        .sum();
                    match section.len() - consumed {
                        1 => st.hit("probe:tear_in_type"),
                        _ => st.hit("probe:tear_in_length"),
                    }
                }
                Item::Invalid(..) => st.hit("probe:tear_in_value"),
                Item::OtherError => {}
            }
        }
        if it.as_bytes() != section {
            return Some((
                "section_bytes_differ",
                "as_bytes".into(),
                format!(
                    "the iterator's section ({} bytes) is not the payload after the address block ({} bytes)",
                    it.as_bytes().len(),
                    section.len()
                ),
            ));
        }
        let base = (it.as_bytes().as_ptr(), it.as_bytes().len());
        let limit = section.len() / 3 + 8;
        // seeded history: copies of the iterator are taken at some positions and driven independently
        let mut rng = Rng::new(aux);
        let mut got: Vec<Item> = Vec::new();
        let mut copies: Vec<(usize, TypeLengthValues<'_>)> = Vec::new();
        loop {
            if rng.chance(1, 4) && copies.len() < 4 {
                copies.push((got.len(), it));
            }
            let mut one = observe(&mut it, base, 1);
            if one.is_empty() {
                break;
            }
            got.push(one.remove(0));
            if got.len() > limit {
                break;
            }
        }
        if got != want {
            let clause = if got.len() > want.len() {
                "extra_items"
            } else if got.len() < want.len() {
                "missing_items"
            } else {
                "item_differs"
            };
            let idx = got
                .iter()
                .zip(want.iter())
                .position(|(a, b)| a != b)
                .unwrap_or(got.len().min(want.len()));
            return Some((
                clause,
                format!("{:?}", got.get(idx)),
                format!(
                    "{} over section {:?}: item #{} is {:?}, the reference walk gives {:?} ({} items vs {})",
                    via,
                    printable(section, 60),
                    idx,
                    got.get(idx),
                    want.get(idx),
                    got.len(),
                    want.len()
                ),
            ));
        }
        // after the end or an error every further next() is None
        for _ in 0..3 {
            if let Some(x) = it.next() {
                return Some((
                    "item_after_end",
                    format!("{:?}", x.map(|t| t.kind)),
                    format!(
                        "{}: next() returned an item after the iteration had ended over {:?}",
                        via,
                        printable(section, 60)
                    ),
                ));
            }
        }
        match want.last() {
            Some(Item::ShortTail) | Some(Item::Invalid(..)) => st.hit("probe:next_after_error"),
            _ => st.hit("probe:next_after_end"),
        }
        // the copies must continue exactly where they were taken, whichever part of the
        // Iterator interface drives them
        for (at, mut c) in copies {
            st.hit("probe:copy_driven");
            let remaining = &want[at..];
            let mode = rng.below(6);
            let k = rng.range(0, 3);
            let adaptor: Option<(&'static str, Vec<Item>, Vec<Item>)> = match mode {
                1 => {
                    // nth(k), then plain iteration
                    st.hit("probe:driven_by_nth");
                    let mut got: Vec<Item> = Vec::new();
                    let first = c.nth(k).map(|x| to_item(x, base));
                    let mut exp: Vec<Item> = Vec::new();
                    if let Some(x) = remaining.get(k) {
                        exp.push(x.clone());
                        exp.extend(remaining[k + 1..].iter().cloned());
                    }
                    if let Some(x) = first {
                        got.push(x);
                        got.extend(observe(&mut c, base, limit));
                    } else {
                        // exhausted: nothing may follow
                        got.extend(observe(&mut c, base, limit));
                    }
                    Some(("nth", got, exp))
                }
                2 => {
                    st.hit("probe:driven_by_skip");
                    let got: Vec<Item> = c.skip(k).take(limit).map(|x| to_item(x, base)).collect();
                    let exp: Vec<Item> = remaining.iter().skip(k).cloned().collect();
                    Some(("skip", got, exp))
                }
                3 => {
                    st.hit("probe:driven_by_step_by");
                    let got: Vec<Item> = c
                        .step_by(k + 1)
                        .take(limit)
                        .map(|x| to_item(x, base))
                        .collect();
                    let exp: Vec<Item> = remaining.iter().step_by(k + 1).cloned().collect();
                    Some(("step_by", got, exp))
                }
                4 => {
                    st.hit("probe:driven_by_last_count");
                    let n = c.count();
                    let last = c.last().map(|x| to_item(x, base));
                    let mut got = vec![Item::Ok {
                        kind: 0,
                        start: n,
                        len: 0,
                        content: 0,
                    }];
                    got.extend(last);
                    let mut exp = vec![Item::Ok {
                        kind: 0,
                        start: remaining.len(),
                        len: 0,
                        content: 0,
                    }];
                    exp.extend(remaining.last().cloned());
                    Some(("count/last", got, exp))
                }
                _ => None,
            };
            if let Some((name, got, exp)) = adaptor {
                if got != exp {
                    return Some((
                        "adaptor_diverges",
                        name.to_string(),
                        format!(
                            "{}: a copy taken after {} items and driven through {}({}) yields {:?}, the reference walk gives {:?}",
                            via,
                            at,
                            name,
                            k,
                            got.iter().take(3).collect::<Vec<_>>(),
                            exp.iter().take(3).collect::<Vec<_>>()
                        ),
                    ));
                }
                continue;
            }
            let rest = observe(&mut c, base, limit);
            if rest.as_slice() != &want[at..] {
                return Some((
                    "copy_diverges",
                    format!("{} items", rest.len()),
                    format!(
                        "{}: a copy of the iterator taken after {} items yields {:?}, expected {:?}",
                        via,
                        at,
                        rest.iter().take(3).collect::<Vec<_>>(),
                        want[at..].iter().take(3).collect::<Vec<_>>()
                    ),
                ));
            }
            if c.next().is_some() {
                return Some((
                    "item_after_end",
                    "copy".into(),
                    format!("{}: a copied iterator yields an item after its end", via),
                ));
            }
        }
        None
    }
}

fn small_alphabet_section(rng: &mut Rng) -> Vec<u8> {
    let n = rng.range(0, 14);
    (0..n).map(|_| *rng.pick(&[0u8, 0, 1, 2, 3, 4, 255])).collect()
}

impl Check for C11 {
    fn id(&self) -> &'static str {
        "C11"
    }
    fn runs(&self, tier: Tier) -> u64 {
        match tier {
            Tier::Quick => 400_000,
            Tier::Thorough => 80_000_000,
        }
    }
    fn generate(&self, rng: &mut Rng, index: u64, tier: Tier) -> Scenario {
        let mut sc = Scenario::new("C11", "length_lie");
        sc.entry = if rng.chance(1, 2) { Entry::V2 } else { Entry::Auto };
        sc.aux = rng.next_u64();
        let big = tier == Tier::Thorough || index % 64 == 0;
        let mut spec = gen_v2_spec(rng, big);
        if spec.fam == 0 {
            // unspecified family has no TLV section; use IPv4 / IPv6 / Unix instead
            spec.fam = rng.range(1, 3) as u8;
            spec.addr = rng.bytes(FAMILY_SIZE[spec.fam as usize]);
        }
        let fsize = FAMILY_SIZE[spec.fam as usize];
        let actual = spec.payload_len().min(65535);
        let kind = rng.below(12);
        let stream: Vec<u8>;
        match kind {
            10 | 11 => {
                // a raw byte slice handed to TypeLengthValues::from, not bounded by a header:
                // sections above 64 KiB and TLVs with the largest declared lengths live here
                sc.sub = "raw_section".into();
                sc.set_tag("fault", "raw_section");
                let mut section: Vec<u8> = Vec::new();
                match rng.below(8) {
                    0 => {
                        // a caller passing the whole header where the TLV bytes were meant
                        let (w, _) = wire::gen_v2(rng, false);
                        section = w.bytes;
                        if rng.chance(1, 2) {
                            let l = rng.range(0, 9);
                            section.extend(rng.bytes(l));
                        }
                        sc.stream = section;
                        sc.intended_header_len = sc.stream.len();
                        sc.events = vec![Ev::Deliver(sc.stream.len()), Ev::Stall];
                        sc.set_tag("fault", "raw_section_whole_header");
                        return sc;
                    }
                    1 => {
                        // realistic TLVs back to back
                        let n = rng.range(1, 8);
                        for _ in 0..n {
                            let (t, v) = wire::realistic_tlv(rng);
                            section.extend(wire::tlv_to_bytes(t, &v));
                        }
                        if rng.chance(1, 3) {
                            let cut = rng.range(0, section.len());
                            section.truncate(cut);
                        }
                        sc.stream = section;
                        sc.intended_header_len = sc.stream.len();
                        sc.events = vec![Ev::Deliver(sc.stream.len()), Ev::Stall];
                        sc.set_tag("fault", "raw_section_realistic");
                        return sc;
                    }
                    2 if index % 4096 == 11 => {
                        // more items than a 16-bit counter holds
                        section = vec![0u8; 196_608 + rng.range(0, 5)];
                        sc.stream = section;
                        sc.intended_header_len = sc.stream.len();
                        sc.events = vec![Ev::Deliver(sc.stream.len()), Ev::Stall];
                        sc.set_tag("fault", "raw_section_dense");
                        return sc;
                    }
                    _ => {}
                }
                let n_small = rng.range(0, 3);
                for _ in 0..n_small {
                    let l = rng.range(0, 6);
                    section.extend(wire::tlv_to_bytes(rng.byte(), &rng.bytes(l)));
                }
                if rng.chance(2, 3) {
                    let declared = *rng.pick(&[65535usize, 65534, 65533, 65532, 65531, 32768, 32767, 256, 255]);
                    section.push(rng.byte());
                    section.extend_from_slice(&(declared as u16).to_be_bytes());
                    // value present: exact, short by 1..3, or followed by more TLVs
                    let present = match rng.below(4) {
                        0 => declared,
                        1 => declared.saturating_sub(rng.range(1, 3)),
                        2 => declared,
                        _ => rng.range(0, declared),
                    };
                    let fill = rng.byte();
                    section.extend(std::iter::repeat(fill).take(present));
                    if present == declared && rng.chance(1, 2) {
                        let l = rng.range(0, 4);
                        section.extend(wire::tlv_to_bytes(4, &rng.bytes(l)));
                        if rng.chance(1, 3) {
                            let t = rng.range(1, 2);
                            section.extend(rng.bytes(t));
                        }
                    }
                } else if rng.chance(1, 2) {
                    section.extend(small_alphabet_section(rng));
                }
                stream = section;
                sc.intended_header_len = stream.len();
                sc.events = vec![Ev::Deliver(stream.len()), Ev::Stall];
                sc.stream = stream;
                return sc;
            }
            0..=3 => {
                // declared length cuts the TLV area at one point (real Builder::set_length)
                let cut = match rng.below(4) {
                    0 => actual,
                    1 => rng.range(fsize, actual),
                    _ => {
                        // just around a TLV boundary
                        let w = assemble_v2(&spec);
                        let hot: Vec<usize> = w
                            .hot_cuts()
                            .into_iter()
                            .filter(|c| *c >= 16 + fsize && *c <= 16 + actual)
                            .collect();
                        if hot.is_empty() {
                            actual
                        } else {
                            *rng.pick(&hot) - 16
                        }
                    }
                };
                spec.declared = Some(cut as u16);
                stream = match build_v2_real(rng, &spec) {
                    Some(b) => {
                        sc.set_tag("fault", "length_lie_real_builder");
                        b
                    }
                    None => {
                        sc.set_tag("fault", "length_lie_hand");
                        assemble_v2(&spec).bytes
                    }
                };
            }
            4 | 5 => {
                // systematic: every cut point of the section in turn (done inside the run)
                sc.sub = "every_cut".into();
                let mut small = gen_v2_spec(rng, false);
                if small.fam == 0 {
                    small.fam = 1;
                    small.addr = rng.bytes(12);
                }
                stream = assemble_v2(&small).bytes;
                sc.set_tag("fault", "length_lie_every_cut");
                sc.set_meta("cut", -1);
            }
            6 | 7 => {
                // a corrupted length byte inside the TLV area
                sc.sub = "corrupt_tlv_length".into();
                let w = assemble_v2(&spec);
                let mut b = w.bytes.clone();
                let lens: Vec<(usize, usize)> = w
                    .elems
                    .iter()
                    .filter(|e| e.kind == wire::El::TlvLen)
                    .map(|e| (e.start, e.end))
                    .collect();
                if !lens.is_empty() {
                    let (s, _) = *rng.pick(&lens);
                    match rng.below(5) {
                        0 => b[s] = 0xff,
                        1 => b[s + 1] = b[s + 1].wrapping_add(1),
                        2 => b[s + 1] = b[s + 1].wrapping_sub(1),
                        3 => b.swap(s, s + 1),
                        _ => b[s] ^= 1,
                    }
                    sc.set_tag("fault", "corrupt_tlv_length");
                }
                stream = b;
            }
            _ => {
                // junk after a valid fixed part (small alphabet or random)
                sc.sub = "junk_section".into();
                let section = if rng.chance(2, 3) {
                    small_alphabet_section(rng)
                } else {
                    let n = rng.range(0, 600);
                    rng.bytes(n)
                };
                let mut s2 = spec.clone();
                s2.tlvs.clear();
                s2.tail = section;
                s2.declared = None;
                stream = assemble_v2(&s2).bytes;
                sc.set_tag("fault", "junk_section");
            }
        }
        sc.intended_header_len = stream.len();
        sc.events = gen_schedule(rng, stream.len(), stream.len(), &[], 2);
        sc.stream = stream;
        sc
    }

    fn focus(&self, sc: &Scenario, v: &Violation) -> Option<Scenario> {
        let c = v.focus?;
        let mut s = sc.clone();
        s.set_meta("cut", c);
        Some(s)
    }

    fn execute(&self, sc: &Scenario, st: &mut Stats) -> Vec<Violation> {
        let mut out = Vec::new();
        if let Some(f) = sc.tag("fault") {
            st.hit_dyn(format!("fault:{}", f));
        }
        if sc.sub == "raw_section" {
            st.distinct(fnv(&sc.stream) ^ sc.aux);
            st.hit("probe:raw_section");
            // recycled memory: the allocation the section lives in held another section of the
            // same size, which was iterated there, before these bytes were copied over it
            let mut memory: Vec<u8> = Vec::new();
            if let Some(prev) = &sc.recycled {
                if prev.stream.len() == sc.stream.len() {
                    memory = prev.stream.clone();
                    let _ = guard(|| {
                        let mut n = 0usize;
                        for item in TypeLengthValues::from(&memory[..]) {
                            n += 1;
                            if item.is_err() || n > memory.len() / 3 + 2 {
                                break;
                            }
                        }
                    });
                    memory.copy_from_slice(&sc.stream);
                    st.hit("fault:recycled_section_memory");
                }
            }
            let section: &Vec<u8> = if memory.len() == sc.stream.len() && sc.recycled.is_some() {
                &memory
            } else {
                &sc.stream
            };
            let r = guard(|| {
                let mut j = Judge { st: &mut *st };
                j.judge(
                    section,
                    TypeLengthValues::from(&section[..]),
                    sc.aux,
                    "TypeLengthValues::from(&[u8])",
                )
            });
            match r {
                Err(_) => st.hit("skip:panic"),
                Ok(None) => {}
                Ok(Some((clause, res, detail))) => {
                    let mut v = viol("C11", clause, Entry::V2, section, res, detail);
                    v.entry = "raw".into();
                    v.shape = section_shape(section);
                    out.push(v);
                }
            }
            return out;
        }
        if sc.stream.len() < 16 || !is_v2_stream(&sc.stream) {
            st.hit("skip:not_v2");
            return out;
        }
        st.distinct(fnv(&sc.stream) ^ sc.aux);
        // the variants of the stream this run looks at
        let mut variants: Vec<(Vec<u8>, Option<i64>)> = Vec::new();
        if sc.sub == "every_cut" {
            let fam = (sc.stream[13] >> 4) as usize;
            let fsize = if fam < 4 { FAMILY_SIZE[fam] } else { 0 };
            let actual = sc.stream.len() - 16;
            let which = sc.meta("cut").unwrap_or(-1);
            for cut in fsize..=actual {
                if which >= 0 && which as usize != cut {
                    continue;
                }
                let mut b = sc.stream.clone();
                b[14..16].copy_from_slice(&(cut as u16).to_be_bytes());
                variants.push((b, Some(cut as i64)));
            }
        } else {
            variants.push((sc.stream.clone(), None));
        }
        for (stream, focus) in variants {
            let mut run = sc.clone();
            run.stream = stream;
            let mut result: Option<(&'static str, String, String, Vec<u8>)> = None;
            let mut judged = false;
            let entry = sc.entry;
            let end = drive(&run, ReadSizing::Fill, |step| {
                let b = step.buf;
                // the receiver waits for acceptance, then walks the TLVs
                let r = guard(|| {
                    let h = match entry {
                        Entry::V2 => v2::Header::try_from(b).ok(),
                        _ => match HeaderResult::parse(b) {
                            HeaderResult::V2(Ok(h)) => Some(h),
                            _ => None,
                        },
                    };
                    h.map(|h| {
                        let fam = (b[13] >> 4) as usize;
                        let l = u16::from_be_bytes([b[14], b[15]]) as usize;
                        let fsize = if fam == 0 { l } else { FAMILY_SIZE[fam] };
                        let section = b[16 + fsize.min(l)..16 + l].to_vec();
                        let mut j = Judge { st: &mut *st };
                        // through the accepted header, and through From<&[u8]> on the same bytes
                        let a = j.judge(&section, h.tlvs(), sc.aux, "Header::tlvs()");
                        let a = a.or_else(|| {
                            j.judge(
                                &section,
                                TypeLengthValues::from(&section[..]),
                                sc.aux ^ 1,
                                "TypeLengthValues::from(&[u8])",
                            )
                        });
                        // the owned header iterates the same way
                        let o = h.to_owned();
                        let a = a.or_else(|| j.judge(&section, o.tlvs(), sc.aux ^ 2, "owned Header::tlvs()"));
                        (a, section)
                    })
                });
                match r {
                    Err(_) => {
                        st.hit("skip:panic");
                        false
                    }
                    Ok(None) => true,
                    Ok(Some((a, section))) => {
                        judged = true;
                        if let Some((clause, res, detail)) = a {
                            result = Some((clause, res, detail, section));
                        }
                        false
                    }
                }
            });
            count_transport(st, sc, &end);
            if judged {
                st.hit("probe:section_of_accepted_header");
            }
            if let Some((clause, res, detail, section)) = result {
                let mut v = viol("C11", clause, entry, &section, res, detail);
                v.shape = section_shape(&section);
                v.focus = focus;
                out.push(v);
            }
        }
        out
    }

    fn interference(&self) -> bool {
        true
    }
    fn required_probes(&self, tier: Tier) -> Vec<&'static str> {
        let v = vec![
            "probe:section_of_accepted_header",
            "probe:tlv_len_0",
            "probe:tlv_len_1",
            "probe:tlv_len_255",
            "probe:tlv_len_256",
            "probe:tlv_exact_fit",
            "probe:tear_in_type",
            "probe:tear_in_length",
            "probe:tear_in_value",
            "probe:next_after_error",
            "probe:next_after_end",
            "probe:copy_driven",
            "probe:driven_by_nth",
            "probe:driven_by_skip",
            "probe:driven_by_step_by",
            "probe:driven_by_last_count",
            "probe:raw_section",
            "probe:tlv_len_65535",
            "fault:length_lie_real_builder",
            "fault:corrupt_tlv_length",
            "fault:junk_section",
        ];
        let _ = tier;
        v
    }
    fn rule(&self) -> String {
        "one run = one v2 stream whose TLV area is well-formed and then torn or corrupted by a fault a deployment meets (declared length cutting the area at one point, made with the real Builder::set_length; in the every_cut sub-batch at every point in turn; a corrupted TLV length byte; a junk section over a small alphabet or random bytes), delivered under a seeded segmentation to a v2 / auto receiver that walks tlvs() on acceptance; the same section is also walked through TypeLengthValues::from and through the owned header. The iterator is driven by a seeded history (next until None, three more calls, up to four copies taken mid-way and driven independently). Items are compared with the reference walk in number, kind, value offset (tiling) and length. Distinct by (stream hash, history seed); non-trivial = the header was accepted and its section judged. Exhaustive enumeration of all short strings is a different technique and is not done.".into()
    }
    fn real_vs_stub(&self) -> serde_json::Value {
        json!({
            "real": ["v2::Header::try_from / HeaderResult::parse", "Header::tlvs(), TypeLengthValues::from(&[u8]), Iterator::next, Copy of the iterator", "Builder::set_length on the sender side"],
            "stub": ["reference walker (10 lines, shares no code with the crate)", "transport, fault injector"]
        })
    }
    fn assumptions(&self) -> Vec<String> {
        vec![
            "the expected section is computed from the wire (payload after the family's address block, up to the declared length), not taken from tlv_bytes()".into(),
            "when fewer than three bytes remain any single error item is accepted: the property does not say which error that is".into(),
        ]
    }
}

fn section_shape(section: &[u8]) -> String {
    let r = reference(section);
    let mut s = format!("section[{}]:", section.len());
    for it in r.iter().take(6) {
        match it {
            Item::Ok { len, .. } => s.push_str(&format!("ok{},", len)),
            Item::ShortTail | Item::OtherError => s.push_str("short_tail"),
            Item::Invalid(_, l) => s.push_str(&format!("overrun{}", l)),
        }
    }
    if r.len() > 6 {
        s.push_str("..");
    }
    s
}
