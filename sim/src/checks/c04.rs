//! C04 — an accepted header never depends on or consumes the bytes that follow.
//! Metamorphic oracle on the real code, evaluated at every receiver step: whenever
//! the current buffer is accepted, the reported header bytes alone, the header
//! followed by adversarial trailers, and every later (longer) buffer of the same
//! run must be accepted with an identical result; the consumed length has the
//! shape the property states; the application sink gets exactly what follows.

use super::*;
use crate::engine::Tier;
use crate::recv::{drive, parse, view, ReadSizing, Verdict};
use crate::rng::fnv;
use crate::scenario::printable;
use crate::wire::{adversarial_trailers, gen_junk};
use serde_json::json;

pub struct C04;

const DIRECTED: &[&[u8]] = &[
    b"PROXY TCP4 1.2.3.4 5.6.7.8 80 443\r\nGET / HTTP/1.1\r\n",
    b"PROXY UNKNOWN\r\nPROXY UNKNOWN\r\n",
    b"PROXY TCP6 ::1 ::2 1 2\r\n\n",
    b"PROXY TCP4 1.2.3.4 5.6.7.8 80 443\r\n0",
    b"\r\n\r\n\0\r\nQUIT\n\x21\x11\x00\x0c\x7f\x00\x00\x01\x7f\x00\x00\x02\x00\x50\x01\xbb\x04\x00\x01x",
    b"\r\n\r\n\0\r\nQUIT\n\x20\x00\x00\x00PROXY UNKNOWN\r\n",
];

/// Variations of the line ending / free text that a sloppy sender could produce.
pub fn sloppy_v1(rng: &mut Rng) -> Vec<u8> {
    let w = wire::gen_v1(rng, true);
    let n = w.bytes.len();
    let mut line = w.bytes[..n - 2].to_vec();
    if rng.chance(1, 5) {
        // a doubled separator somewhere in the line
        let spaces: Vec<usize> = line
            .iter()
            .enumerate()
            .filter(|(_, b)| **b == b' ')
            .map(|(i, _)| i)
            .collect();
        if !spaces.is_empty() {
            let at = *rng.pick(&spaces);
            line.insert(at, b' ');
        }
    }
    let endings: &[&[u8]] = &[
        b" \n", b"\n", b" \r\n", b"\n\r\n", b" \n\r\n", b" \n x\r\n", b"\r", b" \n\r", b" ",
        b" \n \n", b"\r\r\n", b"", b" GET / HTTP/1.1", b" x", b"  ",
    ];
    let e: &[u8] = *rng.pick(endings);
    line.extend_from_slice(e);
    if rng.chance(1, 2) {
        let n = rng.range(0, 12);
        for _ in 0..n {
            line.push(*rng.pick(b"ab 1\n\r"));
        }
    }
    line
}

impl Check for C04 {
    fn id(&self) -> &'static str {
        "C04"
    }
    fn runs(&self, tier: Tier) -> u64 {
        match tier {
            Tier::Quick => 500_000,
            Tier::Thorough => 50_000_000,
        }
    }
    fn generate(&self, rng: &mut Rng, index: u64, _tier: Tier) -> Scenario {
        let mut sc = Scenario::new("C04", "random");
        let (stream, hlen, hot) = if (index as usize) < DIRECTED.len() {
            sc.sub = "directed".into();
            let s = DIRECTED[index as usize].to_vec();
            let h = s.len();
            (s, h, Vec::new())
        } else {
            match rng.below(10) {
                0 => {
                    sc.sub = "sloppy_sender".into();
                    sc.set_tag("fault", "sloppy_line_ending");
                    let s = sloppy_v1(rng);
                    let h = s.len();
                    (s, h, Vec::new())
                }
                1 => {
                    sc.sub = "junk_peer".into();
                    let (s, kind) = gen_junk(rng);
                    sc.set_tag("fault", kind);
                    let h = s.len();
                    (s, h, Vec::new())
                }
                _ => {
                    let hs = gen_hop_stream(rng, false, true, 40);
                    sc.set_tag("encoder", hs.wire.encoder);
                    sc.set_tag("trailer", hs.trailer_kind);
                    (hs.stream, hs.wire.bytes.len(), hs.wire.hot_cuts())
                }
            }
        };
        sc.intended_header_len = hlen;
        sc.aux = rng.next_u64();
        sc.bufcap = if rng.chance(1, 6) { pick_bufcap(rng) } else { 0 };
        sc.events = gen_schedule(rng, stream.len(), hlen, &hot, 5);
        sc.stream = stream;
        sc
    }

    fn execute(&self, sc: &Scenario, st: &mut Stats) -> Vec<Violation> {
        let mut out = Vec::new();
        let stream = &sc.stream;
        for &entry in &Entry::ALL {
            // what the one-shot parse of the whole stream says (for the conservation clause)
            let mut local: Vec<Violation> = Vec::new();
            let mut panicked = false;
            let mut first: Option<(usize, Verdict)> = None; // (stream bytes read when first accepted, verdict)
            let end = drive(sc, ReadSizing::Fill, |step| {
                let b = view(entry, step.buf);
                let v = match parse(entry, step.buf) {
                    Ok(v) => v,
                    Err(desc) => {
                        if let Some((at, _)) = &first {
                            // the same header was accepted with fewer bytes after it
                            local.push(viol(
                                "C04",
                                "panic_caused_by_following_bytes",
                                entry,
                                b,
                                crate::recv::panic_site(&desc),
                                format!(
                                    "buffer of {} bytes was accepted; with {} bytes {:?} the parser panics: {}",
                                    at,
                                    b.len(),
                                    printable(b, 140),
                                    desc
                                ),
                            ));
                            return false;
                        }
                        panicked = true;
                        return false;
                    }
                };
                st.log("parse", b.len() as u64, v.is_ok() as u64);
                if let Some((at, firstv)) = &first {
                    // clause 3b: every later, longer buffer of the same run
                    st.oracle_evals += 1;
                    st.hit("probe:later_buffer_checked");
                    if v != *firstv {
                        local.push(viol(
                            "C04",
                            "changed_by_following_bytes",
                            entry,
                            b,
                            v.kind(),
                            format!(
                                "buffer of {} bytes was accepted ({} header bytes); with {} bytes {:?} the result is {}",
                                at,
                                firstv.header_len().unwrap_or(0),
                                b.len(),
                                printable(b, 140),
                                v.kind()
                            ),
                        ));
                        return false;
                    }
                    return true;
                }
                if !v.is_ok() {
                    // keep reading while undecided; a terminal error ends this receiver
                    return v.is_incomplete();
                }
                // ---- first acceptance
                st.oracle_evals += 1;
                let is_v2 = matches!(v.kind().as_str(), "Ok(v2)");
                st.hit(if is_v2 {
                    "probe:accepted_v2"
                } else {
                    "probe:accepted_v1"
                });
                if let Some(h) = v.header_bytes() {
                    let hlen = h.len();
                    // clause 1: the header is a prefix of what was given
                    if hlen > b.len() || &b[..hlen] != h {
                        local.push(viol(
                            "C04",
                            "header_not_prefix_of_input",
                            entry,
                            b,
                            v.kind(),
                            format!(
                                "reported header {:?} is not a prefix of the input {:?}",
                                printable(h, 100),
                                printable(b, 100)
                            ),
                        ));
                        return false;
                    }
                    if b.len() > hlen {
                        st.hit("probe:coalesced");
                        let t = &b[hlen..];
                        if t.starts_with(b"\n") {
                            st.hit("probe:trailer_starts_with_lf");
                        }
                        if t[0].is_ascii_digit() {
                            st.hit("probe:trailer_digits");
                        }
                        if t.starts_with(b"PROXY") || t.starts_with(b"\r\n\r\n\0") {
                            st.hit("probe:trailer_is_second_header");
                        }
                    }
                    // clause 4: shape of the consumed length
                    if is_v2 {
                        let declared = if h.len() >= 16 {
                            u16::from_be_bytes([h[14], h[15]]) as usize
                        } else {
                            usize::MAX
                        };
                        let len_accessor = match &v {
                            Verdict::V2(Ok(h)) => h.len(),
                            Verdict::Auto(ppp::HeaderResult::V2(Ok(h))) => h.len(),
                            _ => hlen,
                        };
                        if declared == usize::MAX || hlen != 16 + declared || len_accessor != hlen {
                            local.push(viol(
                                "C04",
                                "v2_consumed_length_not_16_plus_declared",
                                entry,
                                b,
                                v.kind(),
                                format!(
                                    "header bytes {}, len() {}, declared length {}",
                                    hlen, len_accessor, declared
                                ),
                            ));
                            return false;
                        }
                    } else {
                        let crs = h.iter().filter(|c| **c == b'\r').count();
                        if !h.ends_with(b"\r\n") || crs != 1 {
                            local.push(viol(
                                "C04",
                                "v1_consumed_length_not_line_through_crlf",
                                entry,
                                b,
                                v.kind(),
                                format!(
                                    "accepted v1 header text {:?} is not one line through its CRLF",
                                    printable(h, 140)
                                ),
                            ));
                            return false;
                        }
                    }
                    // clause 2: the header bytes on their own. In the runs that have other
                    // connections (§3.9), somebody else's calls come in between.
                    let h_owned = h.to_vec();
                    if sc.recycled.is_some() || !sc.neighbors.is_empty() {
                        crate::recv::perturb();
                        st.hit("fault:calls_for_others_between_parses");
                    }
                    match parse(entry, &h_owned) {
                        Err(_) => {
                            panicked = true;
                            return false;
                        }
                        Ok(alone) => {
                            // compare through kind + header bytes + Debug-free equality on a re-parse of the same input
                            let same = alone.is_ok()
                                && alone.header_bytes() == v.header_bytes()
                                && alone.v1_addresses() == v.v1_addresses()
                                && alone.kind() == v.kind()
                                && verdict_eq_detached(&alone, &v);
                            if !same {
                                local.push(viol(
                                    "C04",
                                    "header_alone_differs",
                                    entry,
                                    &h_owned,
                                    alone.kind(),
                                    format!(
                                        "input {:?} is accepted with header {:?}, but that header on its own gives {}",
                                        printable(b, 120),
                                        printable(&h_owned, 120),
                                        alone.kind()
                                    ),
                                ));
                                return false;
                            }
                        }
                    }
                    // clause 3a: adversarial trailers generated on the spot
                    let mut arng = Rng::new(sc.aux ^ (entry as u64));
                    for t in adversarial_trailers(&mut arng, &h_owned) {
                        let mut ext = h_owned.clone();
                        ext.extend_from_slice(&t);
                        st.oracle_evals += 1;
                        match parse(entry, &ext) {
                            Err(desc) => {
                                local.push(viol(
                                    "C04",
                                    "panic_caused_by_following_bytes",
                                    entry,
                                    &ext,
                                    crate::recv::panic_site(&desc),
                                    format!(
                                        "{:?} is accepted, but followed by {:?} the parser panics: {}",
                                        printable(&h_owned, 120),
                                        printable(&t, 40),
                                        desc
                                    ),
                                ));
                                return false;
                            }
                            Ok(x) => {
                                if !(x.is_ok() && verdict_eq_detached(&x, &v)) {
                                    local.push(viol(
                                        "C04",
                                        "changed_by_appended_trailer",
                                        entry,
                                        &ext,
                                        x.kind(),
                                        format!(
                                            "{:?} is accepted, but followed by {:?} the result is {}",
                                            printable(&h_owned, 120),
                                            printable(&t, 40),
                                            x.kind()
                                        ),
                                    ));
                                    return false;
                                }
                            }
                        }
                    }
                } else {
                    // FromStr<Addresses>: no header text; only stability of the addresses is judged
                    st.hit("accepted_addresses_only");
                }
                // remember the verdict over the stream itself (outlives the receiver's buffer)
                let at = step.consumed_from_stream;
                match parse(entry, &stream[..at]) {
                    Ok(fv) => first = Some((at, fv)),
                    Err(_) => {
                        panicked = true;
                        return false;
                    }
                }
                true
            });
            if entry == Entry::Auto {
                count_transport(st, sc, &end);
                st.distinct(fnv(stream) ^ fnv(&(sc.events.len() as u64).to_le_bytes()));
            }
            if panicked {
                st.hit("skip:panic_in_run");
                continue;
            }
            // clause 5: conservation — what the application gets is exactly what follows the
            // header the one-shot parse of the full stream reports
            if let Some((at, firstv)) = &first {
                if let (Some(h1), Ok(full)) = (firstv.header_len(), parse(entry, stream)) {
                    if end.stream_read == stream.len() && local.is_empty() {
                        st.oracle_evals += 1;
                        if let Some(h2) = full.header_len() {
                            if h1 != h2 {
                                local.push(viol(
                                    "C04",
                                    "sink_not_conserved",
                                    entry,
                                    stream,
                                    full.kind(),
                                    format!(
                                        "receiver removed {} bytes after accepting at {} bytes, one-shot parse of the stream says {}",
                                        h1, at, h2
                                    ),
                                ));
                            } else {
                                st.hit("probe:sink_conserved");
                            }
                        }
                    }
                }
            }
            out.extend(local);
        }
        out
    }

    fn interference(&self) -> bool {
        true
    }
    fn required_probes(&self, _tier: Tier) -> Vec<&'static str> {
        vec![
            "probe:accepted_v1",
            "probe:accepted_v2",
            "probe:coalesced",
            "probe:trailer_is_second_header",
            "probe:trailer_starts_with_lf",
            "probe:trailer_digits",
            "probe:later_buffer_checked",
            "probe:sink_conserved",
        ]
    }
    fn rule(&self) -> String {
        "one run = one stream (header ++ trailer from the hop generators, or a sloppy sender's line ending, or a junk peer) under one seeded read schedule, observed through all six entry points. At the first receiver step whose buffer is accepted: header is a prefix of the input, the header alone and the header followed by 14 adversarial trailers give the identical result, the consumed length has the stated shape; every later buffer of the run must give the identical result; the sink gets exactly the rest. Distinct by (stream hash, schedule length); non-trivial = every run.".into()
    }
    fn real_vs_stub(&self) -> serde_json::Value {
        json!({
            "real": ["all six parsing entry points", "PartialEq on the returned headers", "v1 Display / v2 Builder encoders on the sender side"],
            "stub": ["transport schedule (coalescing of trailer bytes into the header's read)", "receiver loop", "trailer generators"]
        })
    }
    fn assumptions(&self) -> Vec<String> {
        vec![
            "the oracle is the real parser itself (metamorphic): a header the tree wrongly rejects everywhere is invisible here".into(),
        ]
    }
}

/// Equality of two verdicts that borrow from different buffers.
pub fn verdict_eq_detached(a: &Verdict, b: &Verdict) -> bool {
    // Verdict's PartialEq compares values, not addresses, so this is just `==` with the
    // lifetimes made compatible through Debug-independent field comparison.
    use ppp::HeaderResult as HR;
    match (a, b) {
        (Verdict::Auto(HR::V1(x)), Verdict::Auto(HR::V1(y))) => x == y,
        (Verdict::Auto(HR::V2(x)), Verdict::Auto(HR::V2(y))) => x == y,
        (Verdict::V1B(x), Verdict::V1B(y)) => x == y,
        (Verdict::V1T(x), Verdict::V1T(y)) => x == y,
        (Verdict::V1FH(x), Verdict::V1FH(y)) => x == y,
        (Verdict::V1FA(x), Verdict::V1FA(y)) => x == y,
        (Verdict::V2(x), Verdict::V2(y)) => x == y,
        _ => false,
    }
}
