//! C10 — builder output is the in-order concatenation of what was written,
//! nothing else; reservations and batching have no effect on the output.
//! Reference encoder over seeded call histories, plus shape equivalence.

use super::c09::history_shape;
use super::*;
use crate::builder_hist::{gen_history, reshape, run_model, run_real, run_real_interleaved, RealOutcome};
use crate::engine::Tier;
use crate::recv::guard;
use crate::rng::fnv;
use crate::scenario::{hex, BOp};
use serde_json::json;

pub struct C10;

fn first_diff(a: &[u8], b: &[u8]) -> usize {
    a.iter()
        .zip(b.iter())
        .position(|(x, y)| x != y)
        .unwrap_or(a.len().min(b.len()))
}

impl Check for C10 {
    fn id(&self) -> &'static str {
        "C10"
    }
    fn runs(&self, tier: Tier) -> u64 {
        match tier {
            Tier::Quick => 250_000,
            Tier::Thorough => 25_000_000,
        }
    }
    fn generate(&self, rng: &mut Rng, _index: u64, _tier: Tier) -> Scenario {
        let mut sc = Scenario::new("C10", "history");
        gen_history(rng, &mut sc);
        sc.aux = rng.next_u64();
        sc
    }
    fn shrink_stream(&self) -> bool {
        false
    }
    fn execute(&self, sc: &Scenario, st: &mut Stats) -> Vec<Violation> {
        let mut out = Vec::new();
        let ctor = match &sc.ctor {
            Some(c) => c,
            None => return out,
        };
        st.distinct(fnv(history_shape(sc).as_bytes()) ^ fnv(&(sc.ops.len() as u64).to_le_bytes()));
        let mut arng = Rng::new(sc.aux);
        // shape 255 = the history as generated; 0..3 = re-realisations of its plan; 4 = the
        // history as generated, its operations alternating with those of a second builder that
        // executes the same operations in reverse order (two headers assembled side by side)
        for shape in [255u8, 0, 1, 2, 3, 4] {
            let ops: Vec<BOp> = if shape == 255 || shape == 4 {
                sc.ops.clone()
            } else {
                reshape(&sc.ops, shape, &mut arng)
            };
            let model = run_model(ctor, &ops);
            let run = || {
                if shape == 4 {
                    let rev: Vec<BOp> = ops.iter().rev().cloned().collect();
                    let other = crate::scenario::Ctor::New { vc: 0x21, afp: 0x11 };
                    run_real_interleaved(ctor, &ops, &other, &rev)
                } else {
                    run_real(ctor, &ops)
                }
            };
            let real = match guard(run) {
                Ok(r) => r,
                Err(_) => {
                    st.hit("skip:panic");
                    continue;
                }
            };
            st.oracle_evals += 1;
            st.log("history", ops.len() as u64, shape as u64);
            let bytes = match real {
                RealOutcome::Built(b) => {
                    st.log("built", b.len() as u64, fnv(&b));
                    b
                }
                _ => {
                    // the property is about sequences that succeed
                    st.hit("history_did_not_succeed");
                    continue;
                }
            };
            if model.obligatory_failure_at.is_some() {
                // succeeded although a value was oversized: C09's to report
                st.hit("skip:model_predicts_failure");
                continue;
            }
            st.hit("probe:history_built");
            match shape {
                0 => st.hit("probe:shape_all_singles"),
                1 => st.hit("probe:shape_batched"),
                2 => st.hit("probe:shape_tlv_encoders_swapped"),
                3 => st.hit("probe:shape_reserve_sprinkled"),
                4 => st.hit("probe:shape_two_builders_interleaved"),
                _ => {}
            }
            if ops.iter().any(|o| matches!(o, BOp::Batch(p) if p.len() > 1)) {
                st.hit("probe:batch_of_several");
            }
            if ops.iter().any(|o| matches!(o, BOp::BatchLazy(p, _) if !p.is_empty())) {
                st.hit("probe:batch_from_lazy_iterator");
            }
            if crate::builder_hist::plan(&ops)
                .iter()
                .any(|p| matches!(p, crate::scenario::Payload::SectionAdvanced(k, f) if *k > 0 && f.len > 0))
            {
                st.hit("probe:advanced_section_written");
            }
            if model.reserve_after_write {
                st.hit("probe:reserve_after_write");
            }
            if model.writes == 0 {
                st.hit("probe:build_without_any_write");
            }
            if matches!(ctor, crate::scenario::Ctor::WithAddresses { fam, .. } if *fam != 0) {
                st.hit("probe:construction_time_addresses");
            }
            let mut masked = bytes.clone();
            if masked.len() >= 16 {
                masked[14] = 0;
                masked[15] = 0;
            }
            let want = model.expected_masked();
            if masked != want {
                let at = first_diff(&masked, &want);
                let region = if at < 12 {
                    "signature"
                } else if at < 14 {
                    "control_bytes"
                } else if at < 16 + model.addr_block.len() {
                    "address_block"
                } else {
                    "payload"
                };
                let clause = match shape {
                    255 => "output_not_concatenation",
                    0 => "singles_shape_differs",
                    1 => "batched_shape_differs",
                    2 => "tlv_encoder_shape_differs",
                    4 => "differs_when_interleaved_with_another_builder",
                    _ => "reserve_shape_differs",
                };
                let lo = at.saturating_sub(4);
                let mut v = viol(
                    "C10",
                    clause,
                    Entry::V2,
                    &[],
                    format!("{}:len {} vs {}", region, masked.len(), want.len()),
                    format!(
                        "built {} bytes, reference {} bytes; first difference at offset {} ({}): built ..{} reference ..{}",
                        masked.len(),
                        want.len(),
                        at,
                        region,
                        hex(&masked[lo.min(masked.len())..(at + 8).min(masked.len())]),
                        hex(&want[lo.min(want.len())..(at + 8).min(want.len())])
                    ),
                );
                v.entry = "builder".into();
                v.shape = history_shape(sc);
                out.push(v);
                break;
            }
        }
        out
    }
    fn required_probes(&self, _tier: Tier) -> Vec<&'static str> {
        vec![
            "probe:history_built",
            "probe:shape_all_singles",
            "probe:shape_batched",
            "probe:shape_tlv_encoders_swapped",
            "probe:shape_reserve_sprinkled",
            "probe:shape_two_builders_interleaved",
            "probe:batch_of_several",
            "probe:batch_from_lazy_iterator",
            "probe:advanced_section_written",
            "probe:reserve_after_write",
            "probe:build_without_any_write",
            "probe:construction_time_addresses",
        ]
    }
    fn rule(&self) -> String {
        "one run = one builder history (as in C09) plus four re-realisations of its plan (all single writes; random batching incl. empty batches; TLVs through struct / tuple / write_tlv / typed tuple; reserve_capacity sprinkled between operations), each executed on the real Builder and compared, with the length field masked, against signature ++ control bytes (family nibble from the address value for with_addresses) ++ construction-time address block ++ specification encodings of the payloads in call order. Distinct by (operation-kind sequence, length); every run is non-trivial.".into()
    }
    fn real_vs_stub(&self) -> serde_json::Value {
        json!({
            "real": ["v2::Builder (all public methods)", "v2::Writer", "every WriteToHeader impl (integers of every width, [u8], Addresses, TypeLengthValue, (T, &[u8]), TypeLengthValues, Type, &T)"],
            "stub": ["reference encoder (big-endian integers at natural width, TLV = type, be16 length, value; Type codes from the specification table)", "history generator and reshaper"]
        })
    }
    fn assumptions(&self) -> Vec<String> {
        vec![
            "the length field (offsets 14..16) is ignored here; it is C09's".into(),
            "histories that do not succeed are counted, not flagged".into(),
        ]
    }
}
