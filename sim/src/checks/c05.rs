//! C05 — streaming: every proper prefix of an accepted header is reported
//! incomplete; the re-parsing receiver ends with the one-shot result however the
//! stream is split; is_complete == !is_incomplete; Ok is never incomplete.
//!
//! Oracle: metamorphic on the real code. Acceptance and the header length come
//! from the real one-shot parse of the whole stream, never from the generator.

use super::*;
use crate::engine::Tier;
use crate::recv::{drive, parse, view, ReadSizing};
use crate::rng::fnv;
use crate::scenario::printable;
use serde_json::json;

pub struct C05;

const DIRECTED: &[&[u8]] = &[
    b"PROXY TCP4 1.2.3.4 5.6.7.8 80 443\r\n",
    b"PROXY TCP6 ::1 ::2 1 2\r\nGET /",
    b"PROXY UNKNOWN\r\n",
    b"PROXY UNKNOWN \r\n",
    b"PROXY UNKNOWN a b c\r\n\r\n",
    b"PROXY TCP4 255.255.255.255 255.255.255.255 65535 65535\r\n",
    b"PROXY TCP6 ffff:ffff:ffff:ffff:ffff:ffff:ffff:ffff ffff:ffff:ffff:ffff:ffff:ffff:ffff:ffff 65535 65535\r\n",
    b"\r\n\r\n\0\r\nQUIT\n\x21\x11\x00\x0c\x7f\x00\x00\x01\x7f\x00\x00\x02\x00\x50\x01\xbbtrailer",
    b"\r\n\r\n\0\r\nQUIT\n\x20\x00\x00\x00",
    b"\r\n\r\n\0\r\nQUIT\n\x21\x11\x00\x13\x7f\x00\x00\x01\x7f\x00\x00\x02\x00\x50\x01\xbb\x04\x00\x04abcd",
];

impl Check for C05 {
    fn id(&self) -> &'static str {
        "C05"
    }
    fn runs(&self, tier: Tier) -> u64 {
        match tier {
            Tier::Quick => 400_000,
            Tier::Thorough => 50_000_000,
        }
    }
    fn generate(&self, rng: &mut Rng, index: u64, _tier: Tier) -> Scenario {
        let mut sc = Scenario::new("C05", "random");
        let (stream, hlen, hot) = if (index as usize) < DIRECTED.len() * 2 {
            sc.sub = "directed".into();
            let s = DIRECTED[index as usize / 2].to_vec();
            let h = s.len();
            (s, h, Vec::new())
        } else {
            let hs = gen_hop_stream(rng, true, true, 35);
            sc.set_tag("encoder", hs.wire.encoder);
            sc.set_tag("trailer", hs.trailer_kind);
            (hs.stream, hs.wire.bytes.len(), hs.wire.hot_cuts())
        };
        sc.intended_header_len = hlen;
        sc.bufcap = if rng.chance(1, 4) { pick_bufcap(rng) } else { 0 };
        // half of the runs visit every cut point; the others use a random segmentation
        let every = index % 2 == 0;
        sc.events = if every {
            sc.set_tag("schedule", "every_cut");
            if hlen <= 1024 {
                transport::every_cut(stream.len(), hlen + 2)
            } else {
                // long v2 header: dense head, 256 random cuts, dense last 64
                let head = 16 + 216 + 64;
                let mut cuts: Vec<usize> = (1..head.min(hlen)).collect();
                for _ in 0..256 {
                    cuts.push(rng.range(head.min(hlen), hlen));
                }
                cuts.extend(hlen.saturating_sub(64)..=hlen);
                cuts.sort_unstable();
                cuts.dedup();
                let mut evs = Vec::new();
                let mut prev = 0;
                for c in cuts {
                    if c > prev && c <= stream.len() {
                        evs.push(Ev::Deliver(c - prev));
                        prev = c;
                    }
                }
                if stream.len() > prev {
                    evs.push(Ev::Deliver(stream.len() - prev));
                }
                evs.push(Ev::Stall);
                evs
            }
        } else {
            sc.set_tag("schedule", "random");
            gen_schedule(rng, stream.len(), hlen, &hot, 10)
        };
        sc.stream = stream;
        sc
    }

    fn execute(&self, sc: &Scenario, st: &mut Stats) -> Vec<Violation> {
        let mut out = Vec::new();
        let stream = &sc.stream;
        let v2 = is_v2_stream(stream);
        let entries: &[Entry] = if v2 {
            &[Entry::V2, Entry::Auto]
        } else {
            &[
                Entry::V1Bytes,
                Entry::V1Text,
                Entry::V1FromStrHeader,
                Entry::V1FromStrAddr,
                Entry::Auto,
            ]
        };
        // header length for FromStr<Addresses>, which does not report it
        let bytes_hlen = match parse(if v2 { Entry::V2 } else { Entry::V1Bytes }, stream) {
            Ok(v) => v.header_len(),
            Err(_) => None,
        };
        for &entry in entries {
            let oneshot = match parse(entry, stream) {
                Ok(v) => v,
                Err(_) => {
                    st.hit("skip:oneshot_panic");
                    continue;
                }
            };
            if !oneshot.is_ok() {
                st.hit("skip:not_accepted");
                continue;
            }
            let hlen = match oneshot.header_len().or(bytes_hlen) {
                Some(h) => h,
                None => {
                    st.hit("skip:no_header_len");
                    continue;
                }
            };
            if !v2 && !stream[..hlen.min(stream.len())].is_ascii() {
                // the property quantifies over US-ASCII v1 lines
                st.hit("skip:non_ascii_v1");
                continue;
            }
            st.hit(if v2 { "probe:v2_accepted" } else { "probe:v1_accepted" });
            st.distinct(fnv(&stream[..hlen]) ^ (entry as u64).wrapping_mul(0x9E3779B97F4A7C15));
            let header = &stream[..hlen];
            let mut local: Vec<Violation> = Vec::new();
            let mut panicked = false;
            let mut last_seen = usize::MAX;
            let end = drive(sc, ReadSizing::Fill, |step| {
                let seen = view(entry, step.buf).len();
                let v = match parse(entry, step.buf) {
                    Ok(v) => v,
                    Err(_) => {
                        panicked = true;
                        return false;
                    }
                };
                st.log(
                    "parse",
                    seen as u64,
                    (v.is_ok() as u64) | ((v.is_incomplete() as u64) << 1),
                );
                st.oracle_evals += 1;
                // coherence of the completeness flags, at every level that implements PartialResult
                let levels = v.flag_levels();
                let disagree = levels
                    .iter()
                    .find(|(_, c, i)| c == i || *i != levels[0].2)
                    .map(|(name, c, i)| (*name, *c, *i));
                if let Some((name, c, i)) = disagree {
                    local.push(viol(
                        "C05",
                        "flags_not_negation",
                        entry,
                        view(entry, step.buf),
                        v.kind(),
                        format!(
                            "for input {:?} the {} level reports is_complete() = {}, is_incomplete() = {} (outermost level: is_incomplete() = {})",
                            printable(view(entry, step.buf), 120),
                            name,
                            c,
                            i,
                            levels[0].2
                        ),
                    ));
                    return false;
                }
                if v.is_complete() == v.is_incomplete() {
                    local.push(viol(
                        "C05",
                        "flags_not_negation",
                        entry,
                        view(entry, step.buf),
                        v.kind(),
                        format!(
                            "is_complete() == is_incomplete() == {} for input {:?}",
                            v.is_complete(),
                            printable(view(entry, step.buf), 120)
                        ),
                    ));
                    return false;
                }
                if v.is_ok() && v.is_incomplete() {
                    local.push(viol(
                        "C05",
                        "ok_flagged_incomplete",
                        entry,
                        view(entry, step.buf),
                        v.kind(),
                        "a success is flagged incomplete".into(),
                    ));
                    return false;
                }
                if seen < hlen {
                    if seen != last_seen {
                        st.hit("cuts_checked");
                        let class = if v2 {
                            v2_class_at(header, seen)
                        } else {
                            v1_class_at(header, seen)
                        };
                        st.hit(class);
                        last_seen = seen;
                    }
                    if !v.is_incomplete() {
                        let clause = if v.is_ok() {
                            "prefix_accepted"
                        } else {
                            "prefix_terminal"
                        };
                        local.push(viol(
                            "C05",
                            clause,
                            entry,
                            view(entry, step.buf),
                            v.kind(),
                            format!(
                                "proper prefix ({} of {} header bytes) {:?} of the accepted header {:?} gives {} instead of an incomplete result",
                                seen,
                                hlen,
                                printable(view(entry, step.buf), 120),
                                printable(header, 120),
                                v.kind()
                            ),
                        ));
                        return false;
                    }
                    true
                } else {
                    st.hit("probe:receiver_completed");
                    if v != oneshot {
                        local.push(viol(
                            "C05",
                            "final_differs_from_oneshot",
                            entry,
                            view(entry, step.buf),
                            v.kind(),
                            format!(
                                "receiver ended with {} after {} bytes, one-shot parse of the stream gives {}",
                                v.kind(),
                                seen,
                                oneshot.kind()
                            ),
                        ));
                    }
                    false
                }
            });
            if entry == entries[0] {
                count_transport(st, sc, &end);
            }
            if panicked {
                st.hit("skip:panic_in_run");
                continue;
            }
            out.extend(local);
        }
        out
    }

    fn interference(&self) -> bool {
        true
    }
    fn required_probes(&self, _tier: Tier) -> Vec<&'static str> {
        vec![
            "probe:v1_accepted",
            "probe:v2_accepted",
            "probe:receiver_completed",
            "fault:eintr",
            "v1:keyword",
            "v1:sp1",
            "v1:proto",
            "v1:sp2",
            "v1:src_addr",
            "v1:sp3",
            "v1:dst_addr",
            "v1:sp4",
            "v1:src_port",
            "v1:sp5",
            "v1:dst_port",
            "v1:free",
            "v1:cr",
            "v1:lf",
            "v2:sig",
            "v2:ver_cmd",
            "v2:fam_proto",
            "v2:len_hi",
            "v2:len_lo",
            "v2:addr",
            "v2:tlvs",
        ]
    }
    fn rule(&self) -> String {
        "one run = one stream (header ++ trailer; v1 ASCII lines from the real Display encoder or a hand assembler covering every legal spelling, v2 headers from the real Builder or a hand assembler, payloads up to 65535) under one seeded read schedule (even run indices: one byte per read over the whole header, i.e. every cut point; odd: random / element-boundary segmentation with EINTR), re-parsed by the receiver through every entry point of the header's version and auto. Streams the real one-shot parse does not accept are skipped and counted. A case is distinct by (hash of accepted header bytes, entry point); non-trivial = accepted by the one-shot parse, so at least one prefix verdict was judged.".into()
    }
    fn real_vs_stub(&self) -> serde_json::Value {
        json!({
            "real": ["ppp::v1::Header::try_from(&[u8])", "ppp::v1::Header::try_from(&str)", "str::parse::<v1::Header>", "str::parse::<v1::Addresses>", "ppp::v2::Header::try_from", "ppp::HeaderResult::parse", "ppp::PartialResult on every result", "v1::Addresses Display and v2::Builder as sender-side encoders"],
            "stub": ["transport / scheduler / fault injector", "receiver loop and buffer (generalisation of examples/server.rs)", "hand assembler for legal spellings the real encoders never emit"],
            "not_run": ["examples/server.rs and examples/one_byte.rs binaries (hard-coded TcpStream)"]
        })
    }
    fn assumptions(&self) -> Vec<String> {
        vec![
            "the library keeps no state between parse calls (checked by reading: pure functions of the slice), so the byte-at-a-time schedule exhausts the schedule space of one stream".into(),
            "acceptance is whatever the real one-shot parse says; a header the tree wrongly rejects is not judged here (that is C01/C02)".into(),
            "v2 headers longer than 1 KiB are cut densely at the head and tail and at 256 random interior points, not everywhere".into(),
        ]
    }
}
