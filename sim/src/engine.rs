//! Batch runner: seeded generation, sharded deterministic execution, grouping of
//! violations by signature, scenario minimisation, replay files verified in a
//! fresh process, known-findings matching, probes and evidence.

use crate::rng::{fnv, run_seed, splitmix64, Fnv, Rng};
use crate::scenario::{printable, BOp, Ev, Fill, Payload, Scenario};
use serde_json::{json, Map, Value};
use std::collections::{BTreeMap, BTreeSet};
use std::sync::atomic::{AtomicBool, AtomicU64, Ordering};
use std::sync::Mutex;
use std::time::Instant;

#[derive(Clone, Copy, Debug, PartialEq, Eq)]
pub enum Tier {
    Quick,
    Thorough,
}

impl Tier {
    pub fn name(self) -> &'static str {
        match self {
            Tier::Quick => "quick",
            Tier::Thorough => "thorough",
        }
    }
}

#[derive(Clone, Debug)]
pub struct Violation {
    pub prop: String,
    /// which clause of the oracle failed (stable identifier)
    pub clause: String,
    pub entry: String,
    /// coarse structural class of the input the violating call saw
    pub shape: String,
    /// what the library returned (kind only)
    pub result: String,
    /// free text for the reader
    pub detail: String,
    /// check-specific index that lets `Check::focus` narrow the scenario to this violation
    pub focus: Option<i64>,
}

impl Violation {
    pub fn signature(&self) -> String {
        format!(
            "{}.{}|{}|{}|{}",
            self.prop, self.clause, self.entry, self.shape, self.result
        )
    }
    pub fn class(&self) -> (String, String) {
        (self.prop.clone(), self.clause.clone())
    }
}

/// Per-worker accumulators. Everything in here is merged commutatively, so the
/// outcome of a batch does not depend on how runs were assigned to workers.
#[derive(Default)]
pub struct Stats {
    pub counters: BTreeMap<&'static str, u64>,
    pub dyn_counters: BTreeMap<String, u64>,
    /// global event sequence numbers consumed (simulated "time")
    pub events: u64,
    /// oracle evaluations
    pub oracle_evals: u64,
    /// signatures of distinct non-trivial cases
    pub sigs: Vec<u64>,
    pub sigs_compact_at: usize,
    /// digest of the current run's event log
    pub run_digest: Fnv,
    /// commutative combination of all run digests
    pub batch_digest: u64,
    /// human-readable trace (only in replay / sample mode)
    pub trace: Option<Vec<String>>,
}

impl Stats {
    #[inline]
    pub fn hit(&mut self, k: &'static str) {
        *self.counters.entry(k).or_insert(0) += 1;
    }
    #[inline]
    pub fn add(&mut self, k: &'static str, n: u64) {
        *self.counters.entry(k).or_insert(0) += n;
    }
    pub fn hit_dyn(&mut self, k: String) {
        *self.dyn_counters.entry(k).or_insert(0) += 1;
    }
    /// Append to the run's event log (digest always, text only when tracing).
    #[inline]
    pub fn log(&mut self, what: &str, a: u64, b: u64) {
        self.run_digest.write_str(what);
        self.run_digest.write_u64(a);
        self.run_digest.write_u64(b);
        self.events += 1;
        if let Some(t) = &mut self.trace {
            if t.len() < 400 {
                t.push(format!("{} {} {}", what, a, b));
            }
        }
    }
    pub fn log_text(&mut self, f: impl FnOnce() -> String) {
        if let Some(t) = &mut self.trace {
            if t.len() < 400 {
                t.push(f());
            }
        }
    }
    pub fn distinct(&mut self, sig: u64) {
        self.sigs.push(sig);
        // keep memory bounded on long batches: compact when the vector has doubled
        if self.sigs.len() >= self.sigs_compact_at.max(1 << 22) {
            self.sigs.sort_unstable();
            self.sigs.dedup();
            self.sigs_compact_at = self.sigs.len() * 2;
        }
    }
    pub fn merge(&mut self, other: Stats) {
        for (k, v) in other.counters {
            *self.counters.entry(k).or_insert(0) += v;
        }
        for (k, v) in other.dyn_counters {
            *self.dyn_counters.entry(k).or_insert(0) += v;
        }
        self.events += other.events;
        self.oracle_evals += other.oracle_evals;
        self.sigs.extend(other.sigs);
        self.batch_digest = self.batch_digest.wrapping_add(other.batch_digest);
    }
    pub fn get(&self, k: &str) -> u64 {
        self.counters.get(k).copied().unwrap_or(0) + self.dyn_counters.get(k).copied().unwrap_or(0)
    }
}

pub trait Check: Sync {
    fn id(&self) -> &'static str;
    /// run count for the tier (a fixed number, never a time budget)
    fn runs(&self, tier: Tier) -> u64;
    fn generate(&self, rng: &mut Rng, index: u64, tier: Tier) -> Scenario;
    fn execute(&self, sc: &Scenario, st: &mut Stats) -> Vec<Violation>;
    /// probes that must be non-zero for a green result to mean anything
    fn required_probes(&self, tier: Tier) -> Vec<&'static str>;
    fn level(&self) -> &'static str {
        "exploration"
    }
    fn rule(&self) -> String;
    fn real_vs_stub(&self) -> Value;
    fn assumptions(&self) -> Vec<String>;
    /// may the generic shrinker edit the stream bytes?
    fn shrink_stream(&self) -> bool {
        true
    }
    /// extra, check-specific shrink candidates
    fn shrink_extra(&self, _sc: &Scenario) -> Vec<Scenario> {
        Vec::new()
    }
    fn exhaustive(&self, _tier: Tier) -> bool {
        false
    }
    /// does the check drive its receiver over `recv::drive` with the scenario itself, so that
    /// other connections (recycled buffer, interleaved neighbours) can be added to its runs?
    fn interference(&self) -> bool {
        false
    }
    /// narrow a scenario that enumerates many cases to the single case of `v`
    fn focus(&self, _sc: &Scenario, _v: &Violation) -> Option<Scenario> {
        None
    }
}

fn tag_of(id: &str) -> u64 {
    fnv(id.as_bytes())
}

pub fn master_seed() -> u64 {
    std::env::var("VERIF_SEED")
        .ok()
        .and_then(|s| s.trim().parse::<u64>().ok())
        .unwrap_or(1)
}

pub fn scenario_for(check: &dyn Check, master: u64, index: u64, tier: Tier) -> Scenario {
    let mut rng = Rng::new(run_seed(master, tag_of(check.id()), index));
    rng.index = index;
    let mut sc = check.generate(&mut rng, index, tier);
    if check.interference() {
        crate::checks::add_interference(&mut sc, index);
    }
    sc
}

pub struct BatchResult {
    pub stats: Stats,
    pub violations: Vec<(u64, Violation)>,
    pub runs_done: u64,
    pub truncated: bool,
    pub wall_s: f64,
}

/// Execute runs `0..n` on `workers` threads. Deterministic in (master, n, code).
pub fn run_batch(
    check: &dyn Check,
    master: u64,
    n: u64,
    tier: Tier,
    workers: usize,
    max_secs: f64,
    per_run_digests: Option<&Mutex<Vec<(u64, u64)>>>,
) -> BatchResult {
    let start = Instant::now();
    let next = AtomicU64::new(0);
    let stop = AtomicBool::new(false);
    let done = AtomicU64::new(0);
    const CHUNK: u64 = 64;
    let current: Vec<AtomicU64> = (0..workers).map(|_| AtomicU64::new(u64::MAX)).collect();
    let finished = AtomicBool::new(false);
    let merged: Mutex<(Stats, Vec<(u64, Violation)>)> = Mutex::new((Stats::default(), Vec::new()));

    std::thread::scope(|scope| {
        // watchdog: a run that makes no progress for 60 s is a hang (C03's `hang` clause)
        scope.spawn(|| {
            let mut last: Vec<(u64, Instant)> =
                (0..workers).map(|_| (u64::MAX, Instant::now())).collect();
            let mut tick = 0u64;
            while !finished.load(Ordering::Relaxed) {
                std::thread::sleep(std::time::Duration::from_millis(20));
                tick += 1;
                if tick % 25 != 0 {
                    continue;
                }
                for w in 0..workers {
                    let cur = current[w].load(Ordering::Relaxed);
                    if cur != last[w].0 {
                        last[w] = (cur, Instant::now());
                    } else if cur != u64::MAX && last[w].1.elapsed().as_secs() >= 60 {
                        let sc = scenario_for(check, master, cur, tier);
                        let v = Violation {
                            prop: check.id().to_string(),
                            clause: "hang".into(),
                            entry: sc.entry.name().into(),
                            shape: shape(&sc.stream),
                            result: "no return within 60 s".into(),
                            focus: None,
                            detail: format!("run {} did not finish within 60 s of wall clock", cur),
                        };
                        let path = write_replay(check.id(), &sc, &v, master, cur);
                        println!("VIOLATION property={} replay={}", check.id(), path);
                        std::process::exit(1);
                    }
                }
                if start.elapsed().as_secs_f64() > max_secs {
                    stop.store(true, Ordering::Relaxed);
                }
            }
        });
        let mut handles = Vec::new();
        for w in 0..workers {
            let next = &next;
            let stop = &stop;
            let done = &done;
            let current = &current;
            let merged = &merged;
            handles.push(scope.spawn(move || {
                let mut st = Stats::default();
                let mut viols: Vec<(u64, Violation)> = Vec::new();
                let mut local_digests: Vec<(u64, u64)> = Vec::new();
                loop {
                    if stop.load(Ordering::Relaxed) {
                        break;
                    }
                    let base = next.fetch_add(CHUNK, Ordering::Relaxed);
                    if base >= n {
                        break;
                    }
                    for i in base..(base + CHUNK).min(n) {
                        current[w].store(i, Ordering::Relaxed);
                        let sc = scenario_for(check, master, i, tier);
                        st.run_digest = Fnv::default();
                        let vs = check.execute(&sc, &mut st);
                        let d = st.run_digest.finish();
                        st.batch_digest = st.batch_digest.wrapping_add(splitmix64(i ^ d));
                        if per_run_digests.is_some() {
                            local_digests.push((i, d));
                        }
                        for v in vs {
                            if viols.len() < 5000 {
                                viols.push((i, v));
                            }
                        }
                        done.fetch_add(1, Ordering::Relaxed);
                    }
                }
                current[w].store(u64::MAX, Ordering::Relaxed);
                let mut g = merged.lock().unwrap();
                g.0.merge(st);
                g.1.extend(viols);
                if let Some(m) = per_run_digests {
                    m.lock().unwrap().extend(local_digests);
                }
            }));
        }
        for h in handles {
            if h.join().is_err() {
                eprintln!("pppsim: harness bug: a worker panicked outside a guarded library call");
                std::process::exit(2);
            }
        }
        finished.store(true, Ordering::Relaxed);
    });
    let (stats, mut violations) = merged.into_inner().unwrap();
    violations.sort_by(|a, b| a.0.cmp(&b.0).then(a.1.signature().cmp(&b.1.signature())));
    let runs_done = done.load(Ordering::Relaxed);
    BatchResult {
        stats,
        violations,
        runs_done,
        truncated: runs_done < n,
        wall_s: start.elapsed().as_secs_f64(),
    }
}

// ------------------------------------------------------------- shapes --------

fn is_ip4ish(t: &[u8]) -> bool {
    !t.is_empty()
        && t.iter().all(|c| c.is_ascii_digit() || *c == b'.')
        && t.contains(&b'.')
}
fn is_ip6ish(t: &[u8]) -> bool {
    !t.is_empty()
        && t.iter()
            .all(|c| c.is_ascii_hexdigit() || *c == b':' || *c == b'.')
        && t.contains(&b':')
}

/// Coarse structural class of an input, used in violation signatures.
pub fn shape(bytes: &[u8]) -> String {
    let sig = crate::wire::V2_SIG;
    if bytes.len() >= 12 && &bytes[..12] == sig {
        if bytes.len() < 16 {
            return format!("v2sig+{}", bytes.len() - 12);
        }
        let len = u16::from_be_bytes([bytes[14], bytes[15]]) as usize;
        let fam = (bytes[13] >> 4) as usize;
        let need = if fam < 4 {
            crate::wire::FAMILY_SIZE[fam]
        } else {
            0
        };
        let have = bytes.len() - 16;
        return format!(
            "v2:vc={:02x}:afp={:02x}:len{}min:have{}len",
            bytes[12],
            bytes[13],
            if len < need {
                "<"
            } else if len == need {
                "="
            } else {
                ">"
            },
            if have < len {
                "<"
            } else if have == len {
                "="
            } else {
                ">"
            }
        );
    }
    if !bytes.is_empty() && bytes.len() < 12 && sig.starts_with(bytes) {
        return format!("v2sig[..{}]", bytes.len());
    }
    // text tokens
    let mut out = String::new();
    let mut tokens = 0;
    let mut i = 0;
    while i < bytes.len() {
        if tokens >= 18 {
            out.push_str("..");
            break;
        }
        let c = bytes[i];
        match c {
            b' ' => {
                out.push('_');
                i += 1;
            }
            b'\r' => {
                out.push_str("<CR>");
                i += 1;
            }
            b'\n' => {
                out.push_str("<LF>");
                i += 1;
            }
            _ => {
                let s = i;
                while i < bytes.len() && !matches!(bytes[i], b' ' | b'\r' | b'\n') {
                    i += 1;
                }
                let t = &bytes[s..i];
                let cls = match t {
                    b"PROXY" => "PROXY".to_string(),
                    b"TCP4" => "TCP4".to_string(),
                    b"TCP6" => "TCP6".to_string(),
                    b"UNKNOWN" => "UNKNOWN".to_string(),
                    _ if t.iter().all(|c| c.is_ascii_digit()) => {
                        if t.len() > 1 && t[0] == b'0' {
                            "0num".to_string()
                        } else {
                            "num".to_string()
                        }
                    }
                    _ if t.len() > 1
                        && (t[0] == b'+' || t[0] == b'-')
                        && t[1..].iter().all(|c| c.is_ascii_digit()) =>
                    {
                        format!("{}num", t[0] as char)
                    }
                    _ if is_ip4ish(t) => "ip4".to_string(),
                    _ if is_ip6ish(t) => "ip6".to_string(),
                    _ if b"PROXY".starts_with(t) => "PROXY-prefix".to_string(),
                    _ if b"TCP4".starts_with(t) || b"UNKNOWN".starts_with(t) => {
                        "proto-prefix".to_string()
                    }
                    _ if t.iter().any(|c| *c >= 0x80) => "w8".to_string(),
                    _ => "w".to_string(),
                };
                out.push_str(&cls);
            }
        }
        tokens += 1;
    }
    if out.is_empty() {
        "empty".to_string()
    } else {
        out
    }
}

// ------------------------------------------------------------- replay files --

pub fn verif_root() -> String {
    std::env::var("VERIF_ROOT").unwrap_or_else(|_| "/verif".to_string())
}

/// Execute a scenario the way a replay does: its prelude first (same thread, not judged),
/// then the scenario itself.
pub fn exec(check: &dyn Check, sc: &Scenario, st: &mut Stats) -> Vec<Violation> {
    for p in &sc.prelude {
        let mut scratch = Stats::default();
        let _ = check.execute(p, &mut scratch);
    }
    check.execute(sc, st)
}

pub fn write_replay(id: &str, sc: &Scenario, v: &Violation, master: u64, index: u64) -> String {
    let dir = format!("{}/replays/{}", verif_root(), id);
    let _ = std::fs::create_dir_all(&dir);
    let digest = fnv(format!("{}{}", v.signature(), sc.to_json()).as_bytes());
    let path = format!("{}/{:016x}.json", dir, digest);
    write_replay_to(&path, id, sc, v, master, index);
    path
}

pub fn write_replay_to(path: &str, id: &str, sc: &Scenario, v: &Violation, master: u64, index: u64) {
    let body = json!({
        "property": id,
        "clause": v.clause,
        "signature": v.signature(),
        "detail": v.detail,
        "seed": master,
        "run_index": index,
        "order_dependent": if sc.prelude.is_empty() { Value::Null } else { json!(format!("the violation manifests only after the {} scenario(s) under scenario.prelude have been executed, in that order, on the same thread: the code under test carries state from one call to the next", sc.prelude.len())) },
        "scenario": sc.to_json(),
    });
    let text = serde_json::to_string_pretty(&body).unwrap();
    std::fs::write(path, text).expect("cannot write replay file");
}

/// Does this scenario produce a violation of the given clause when replayed in a fresh process?
pub fn reproduces_fresh(id: &str, sc: &Scenario, v: &Violation, master: u64, index: u64) -> bool {
    static N: AtomicU64 = AtomicU64::new(0);
    let dir = format!("{}/replays/{}", verif_root(), id);
    let _ = std::fs::create_dir_all(&dir);
    let path = format!(
        "{}/.tmp-{}-{}.json",
        dir,
        std::process::id(),
        N.fetch_add(1, Ordering::Relaxed)
    );
    write_replay_to(&path, id, sc, v, master, index);
    let exe = std::env::current_exe().expect("current_exe");
    let out = std::process::Command::new(exe)
        .arg("replay")
        .arg(&path)
        .arg("--quiet")
        .env("VERIF_NO_SUPERVISOR", "1")
        .output();
    let _ = std::fs::remove_file(&path);
    matches!(&out, Ok(o) if o.status.code() == Some(1))
}

/// A violation seen in the batch does not reproduce when its scenario is replayed alone in a
/// fresh process: the code under test remembers something between calls. Rebuild a history that
/// does reproduce it — the runs that preceded it, executed in order on one thread — and
/// minimise that history, every candidate being judged in a fresh process.
pub fn order_dependent_session(
    check: &dyn Check,
    master: u64,
    tier: Tier,
    index: u64,
    v: &Violation,
    budget_s: u64,
    full_prefix: bool,
) -> Option<Scenario> {
    let id = check.id();
    let start = Instant::now();
    let main = scenario_for(check, master, index, tier);
    let fresh = |sc: &Scenario| reproduces_fresh(id, sc, v, master, index);
    let mut session: Option<Scenario> = None;
    if fresh(&main) {
        session = Some(main.clone());
    } else {
        // the runs of the same 64-run chunk ran on the same worker thread right before it
        let mut ks: Vec<u64> = vec![1, 2, 4];
        if index % 64 > 0 {
            ks.push(index % 64);
        }
        ks.extend([64, 128, 256, 512]);
        if full_prefix {
            // the violation was found by executing the runs 0..=index in this order on one
            // thread of a fresh process: that whole history reproduces it by construction
            ks.push(index);
        }
        for k in ks {
            let lo = index.saturating_sub(k);
            if lo == index {
                continue;
            }
            let mut s = main.clone();
            s.prelude = (lo..index).map(|i| scenario_for(check, master, i, tier)).collect();
            if fresh(&s) {
                session = Some(s);
                break;
            }
            if lo == 0 || start.elapsed().as_secs() >= budget_s {
                break;
            }
        }
    }
    let mut best = session?;
    let over = |start: &Instant| start.elapsed().as_secs() >= budget_s;
    // keep only the last n scenarios of the prelude
    let mut n = 0usize;
    while n < best.prelude.len() && !over(&start) {
        let mut c = best.clone();
        c.prelude = best.prelude[best.prelude.len() - n..].to_vec();
        if fresh(&c) {
            best = c;
            break;
        }
        n = if n == 0 { 1 } else { n * 2 };
    }
    // remove chunks of the prelude (ddmin)
    let mut chunk = (best.prelude.len() / 2).max(1);
    while !best.prelude.is_empty() && !over(&start) {
        let mut i = 0;
        while i < best.prelude.len() && !over(&start) {
            let mut c = best.clone();
            let hi = (i + chunk).min(c.prelude.len());
            c.prelude.drain(i..hi);
            if fresh(&c) {
                best = c;
            } else {
                i += chunk;
            }
        }
        if chunk == 1 {
            break;
        }
        chunk /= 2;
    }
    // shrink the scenarios themselves (the judged one, then each prelude entry)
    let mut spawns = 0u32;
    'outer: loop {
        if over(&start) || spawns > 600 {
            break;
        }
        for slot in 0..=best.prelude.len() {
            let cur = if slot == 0 {
                let mut m = best.clone();
                m.prelude.clear();
                m
            } else {
                best.prelude[slot - 1].clone()
            };
            for cand in candidates(check, &cur) {
                if weight(&cand) >= weight(&cur) {
                    continue;
                }
                if over(&start) || spawns > 600 {
                    break 'outer;
                }
                let mut c = best.clone();
                if slot == 0 {
                    let pre = std::mem::take(&mut c.prelude);
                    c = cand;
                    c.prelude = pre;
                } else {
                    c.prelude[slot - 1] = cand;
                }
                spawns += 1;
                if fresh(&c) {
                    best = c;
                    continue 'outer;
                }
            }
        }
        break;
    }
    Some(best)
}

pub struct Replay {
    pub scenario: Scenario,
    pub clause: String,
    pub property: String,
}

pub fn read_replay(path: &str) -> Result<Replay, String> {
    let text = std::fs::read_to_string(path).map_err(|e| format!("{}: {}", path, e))?;
    let v: Value = serde_json::from_str(&text).map_err(|e| e.to_string())?;
    let scenario = Scenario::from_json(v.get("scenario").ok_or("no scenario")?)?;
    Ok(Replay {
        scenario,
        clause: v
            .get("clause")
            .and_then(|x| x.as_str())
            .unwrap_or("")
            .to_string(),
        property: v
            .get("property")
            .and_then(|x| x.as_str())
            .unwrap_or("")
            .to_string(),
    })
}

// ------------------------------------------------------------- shrinking -----

fn total_delivered(sc: &Scenario) -> usize {
    sc.events
        .iter()
        .map(|e| if let Ev::Deliver(n) = e { *n } else { 0 })
        .sum()
}

fn end_event(sc: &Scenario) -> Option<Ev> {
    sc.events
        .iter()
        .rev()
        .find(|e| matches!(e, Ev::Stall | Ev::Eof | Ev::Reset))
        .copied()
}

fn shrink_fill(f: &Fill) -> Vec<Fill> {
    let mut out = Vec::new();
    for l in [0usize, 1, f.len / 2, f.len.saturating_sub(1)] {
        if l < f.len {
            out.push(Fill {
                len: l,
                seed: f.seed,
            });
        }
    }
    out
}

fn shrink_payload(p: &Payload) -> Vec<Payload> {
    let mut out = Vec::new();
    match p {
        Payload::Slice(f) => out.extend(shrink_fill(f).into_iter().map(Payload::Slice)),
        Payload::TlvStruct(k, f) => {
            out.extend(shrink_fill(f).into_iter().map(|f| Payload::TlvStruct(*k, f)))
        }
        Payload::TlvTuple(k, f) => {
            out.extend(shrink_fill(f).into_iter().map(|f| Payload::TlvTuple(*k, f)))
        }
        Payload::TlvTyped(k, f) => {
            out.extend(shrink_fill(f).into_iter().map(|f| Payload::TlvTyped(*k, f)))
        }
        Payload::Section(f) => out.extend(shrink_fill(f).into_iter().map(Payload::Section)),
        Payload::SectionAdvanced(k, f) => {
            out.extend(shrink_fill(f).into_iter().map(|f| Payload::SectionAdvanced(*k, f)))
        }
        Payload::U8(_) => {}
        _ => out.push(Payload::U8(7)),
    }
    out
}

/// Generic shrink candidates, most aggressive first.
fn candidates(check: &dyn Check, sc: &Scenario) -> Vec<Scenario> {
    let mut out: Vec<Scenario> = Vec::new();
    // --- other connections
    if sc.recycled.is_some() || !sc.neighbors.is_empty() {
        let mut c = sc.clone();
        c.recycled = None;
        c.neighbors.clear();
        c.meta.retain(|(k, _)| k != "no_initial_parse");
        out.push(c);
        if sc.recycled.is_some() {
            let mut c = sc.clone();
            c.recycled = None;
            c.meta.retain(|(k, _)| k != "no_initial_parse");
            out.push(c);
            if sc.meta("no_initial_parse").is_some() {
                let mut c = sc.clone();
                c.meta.retain(|(k, _)| k != "no_initial_parse");
                out.push(c);
            }
        }
        for i in 0..sc.neighbors.len() {
            let mut c = sc.clone();
            c.neighbors.remove(i);
            out.push(c);
        }
        // fewer steps of the others: only the last cut, then drop cuts one at a time
        let shrink_cuts = |n: &crate::scenario::Neighbor| -> Vec<crate::scenario::Neighbor> {
            let mut v = Vec::new();
            if n.cuts.len() > 1 {
                let mut m = n.clone();
                m.cuts = vec![*n.cuts.last().unwrap()];
                v.push(m);
                if n.cuts.len() <= 16 {
                    for j in 0..n.cuts.len() {
                        let mut m = n.clone();
                        m.cuts.remove(j);
                        v.push(m);
                    }
                }
            }
            if let Some(&last) = n.cuts.last() {
                if last < n.stream.len() {
                    let mut m = n.clone();
                    m.stream.truncate(last);
                    v.push(m);
                }
            }
            v
        };
        if let Some(r) = &sc.recycled {
            for m in shrink_cuts(r) {
                let mut c = sc.clone();
                c.recycled = Some(m);
                out.push(c);
            }
        }
        for (i, n) in sc.neighbors.iter().enumerate() {
            for m in shrink_cuts(n) {
                let mut c = sc.clone();
                c.neighbors[i] = m;
                out.push(c);
            }
        }
    }
    // --- transport events
    if !sc.events.is_empty() {
        if sc.events.iter().any(|e| matches!(e, Ev::Eintr)) {
            let mut c = sc.clone();
            c.events.retain(|e| !matches!(e, Ev::Eintr));
            out.push(c);
        }
        let total = total_delivered(sc);
        let end = end_event(sc);
        let n_deliver = sc
            .events
            .iter()
            .filter(|e| matches!(e, Ev::Deliver(_)))
            .count();
        if n_deliver > 1 {
            // one single read
            let mut c = sc.clone();
            c.events = vec![Ev::Deliver(total)];
            c.events.extend(end);
            out.push(c);
            // merge neighbouring deliveries pairwise
            let idx: Vec<usize> = sc
                .events
                .iter()
                .enumerate()
                .filter(|(_, e)| matches!(e, Ev::Deliver(_)))
                .map(|(i, _)| i)
                .collect();
            // first: merge halves
            if idx.len() > 3 {
                for half in 0..2 {
                    let (a, b) = if half == 0 {
                        (0, idx.len() / 2)
                    } else {
                        (idx.len() / 2, idx.len())
                    };
                    let mut c = sc.clone();
                    let mut sum = 0;
                    for &j in &idx[a..b] {
                        if let Ev::Deliver(n) = sc.events[j] {
                            sum += n;
                        }
                    }
                    let first = idx[a];
                    let drop: BTreeSet<usize> = idx[a + 1..b].iter().copied().collect();
                    c.events[first] = Ev::Deliver(sum);
                    let mut k = 0;
                    c.events.retain(|_| {
                        let keep = !drop.contains(&k);
                        k += 1;
                        keep
                    });
                    out.push(c);
                }
            }
            if idx.len() <= 40 {
                for w in idx.windows(2) {
                    if let (Ev::Deliver(a), Ev::Deliver(b)) = (sc.events[w[0]], sc.events[w[1]]) {
                        let mut c = sc.clone();
                        c.events[w[0]] = Ev::Deliver(a + b);
                        c.events.remove(w[1]);
                        out.push(c);
                    }
                }
            }
        }
        // simplest end
        if let Some(e) = end {
            if e != Ev::Stall {
                let mut c = sc.clone();
                for x in c.events.iter_mut() {
                    if matches!(x, Ev::Eof | Ev::Reset) {
                        *x = Ev::Stall;
                    }
                }
                out.push(c);
            }
        }
        // drop trailing deliveries (the peer goes away earlier)
        if n_deliver > 1 {
            let last = sc
                .events
                .iter()
                .rposition(|e| matches!(e, Ev::Deliver(_)))
                .unwrap();
            let mut c = sc.clone();
            c.events.remove(last);
            out.push(c);
        }
        if sc.bufcap != 0 {
            let mut c = sc.clone();
            c.bufcap = 0;
            out.push(c);
        }
    }
    // --- stream bytes
    if check.shrink_stream() && !sc.stream.is_empty() {
        let n = sc.stream.len();
        // cut the tail
        for keep in [n / 2, n - n / 4, n - 1] {
            if keep < n {
                let mut c = sc.clone();
                c.stream.truncate(keep);
                clip_events(&mut c);
                out.push(c);
            }
        }
        // remove a chunk (ddmin-style), chunk sizes n/2, n/4, ... 1
        let mut size = n / 2;
        let mut budget = 64;
        while size >= 1 && budget > 0 {
            let mut start = 0;
            while start + size <= n && budget > 0 {
                let mut c = sc.clone();
                c.stream.drain(start..start + size);
                clip_events(&mut c);
                out.push(c);
                start += size;
                budget -= 1;
            }
            if size == 1 {
                break;
            }
            size /= 2;
        }
        // simplify bytes
        if n <= 300 {
            for i in 0..n {
                let b = sc.stream[i];
                if matches!(b, b'\r' | b'\n' | b' ' | b'a' | b'1') || b.is_ascii_uppercase() {
                    continue;
                }
                let s = if b.is_ascii_digit() { b'1' } else { b'a' };
                let mut c = sc.clone();
                c.stream[i] = s;
                out.push(c);
            }
        }
    }
    // --- builder histories
    if sc.ctor.is_some() {
        for i in 0..sc.ops.len() {
            let mut c = sc.clone();
            c.ops.remove(i);
            out.push(c);
        }
        for i in 0..sc.ops.len() {
            match &sc.ops[i] {
                BOp::Batch(ps) | BOp::BatchLazy(ps, _) if ps.len() > 48 => {
                    // a huge batch: halve it, keep its ends; never one candidate per item
                    let lazy = match &sc.ops[i] {
                        BOp::BatchLazy(_, st) => Some(*st),
                        _ => None,
                    };
                    let n = ps.len();
                    for (a, b) in [(0, n / 2), (n / 2, n), (0, n - 1), (1, n), (0, 1), (0, 48)] {
                        let part = ps[a..b.min(n)].to_vec();
                        let mut c = sc.clone();
                        c.ops[i] = match lazy {
                            Some(st) => BOp::BatchLazy(part, st),
                            None => BOp::Batch(part),
                        };
                        out.push(c);
                    }
                }
                BOp::Batch(ps) => {
                    // batch -> singles
                    let mut c = sc.clone();
                    let singles: Vec<BOp> = ps.iter().cloned().map(BOp::Write).collect();
                    c.ops.splice(i..i + 1, singles);
                    out.push(c);
                    for j in 0..ps.len() {
                        let mut c = sc.clone();
                        if let BOp::Batch(q) = &mut c.ops[i] {
                            q.remove(j);
                        }
                        out.push(c);
                        for p2 in shrink_payload(&ps[j]) {
                            let mut c = sc.clone();
                            if let BOp::Batch(q) = &mut c.ops[i] {
                                q[j] = p2;
                            }
                            out.push(c);
                        }
                    }
                }
                BOp::BatchLazy(ps, style) => {
                    // lazy batch -> plain batch, fewer items, simpler items, simplest style
                    let mut c = sc.clone();
                    c.ops[i] = BOp::Batch(ps.clone());
                    out.push(c);
                    if *style != 0 {
                        let mut c = sc.clone();
                        c.ops[i] = BOp::BatchLazy(ps.clone(), 0);
                        out.push(c);
                    }
                    for j in 0..ps.len() {
                        let mut c = sc.clone();
                        if let BOp::BatchLazy(q, _) = &mut c.ops[i] {
                            q.remove(j);
                        }
                        out.push(c);
                        for p2 in shrink_payload(&ps[j]) {
                            let mut c = sc.clone();
                            if let BOp::BatchLazy(q, _) = &mut c.ops[i] {
                                q[j] = p2;
                            }
                            out.push(c);
                        }
                    }
                }
                BOp::Write(p) => {
                    for p2 in shrink_payload(p) {
                        let mut c = sc.clone();
                        c.ops[i] = BOp::Write(p2);
                        out.push(c);
                    }
                }
                BOp::WriteTlv(k, f) => {
                    for f2 in shrink_fill(f) {
                        let mut c = sc.clone();
                        c.ops[i] = BOp::WriteTlv(*k, f2);
                        out.push(c);
                    }
                }
                BOp::Reserve(n) if *n > 1 => {
                    let mut c = sc.clone();
                    c.ops[i] = BOp::Reserve(1);
                    out.push(c);
                }
                BOp::SetLength(Some(x)) if *x != 7 => {
                    let mut c = sc.clone();
                    c.ops[i] = BOp::SetLength(Some(7));
                    out.push(c);
                }
                _ => {}
            }
        }
    }
    out.extend(check.shrink_extra(sc));
    out
}

fn clip_events(sc: &mut Scenario) {
    // keep the schedule consistent with a shorter stream
    let mut left = sc.stream.len();
    let mut evs = Vec::with_capacity(sc.events.len());
    for e in &sc.events {
        match e {
            Ev::Deliver(n) => {
                let k = (*n).min(left);
                left -= k;
                if k > 0 {
                    evs.push(Ev::Deliver(k));
                }
            }
            other => evs.push(*other),
        }
    }
    sc.events = evs;
    if sc.intended_header_len > sc.stream.len() {
        sc.intended_header_len = sc.stream.len();
    }
}

fn weight(sc: &Scenario) -> (usize, usize, usize) {
    let ops_weight: usize = sc
        .ops
        .iter()
        .map(|o| match o {
            BOp::Batch(ps) | BOp::BatchLazy(ps, _) => 2 + ps.len(),
            _ => 1,
        })
        .sum();
    let byte_complexity = sc
        .stream
        .iter()
        .filter(|b| !matches!(**b, b'a' | b'1'))
        .count();
    let ops_text = if sc.ctor.is_some() {
        sc.to_json().to_string().len()
    } else {
        0
    };
    let others: usize = sc
        .recycled
        .iter()
        .chain(sc.neighbors.iter())
        .map(|n| 2000 + n.stream.len() + 50 * n.cuts.len())
        .sum::<usize>()
        + if sc.meta("no_initial_parse").is_some() { 1 } else { 0 };
    (
        sc.stream.len() + ops_weight * 1000 + others + if sc.bufcap != 0 { 1 } else { 0 },
        sc.events.len(),
        byte_complexity + ops_text,
    )
}

/// Shrink while a violation of the same class (property + clause) persists.
pub fn minimise(
    check: &dyn Check,
    sc: &Scenario,
    v: &Violation,
    budget_s: u64,
) -> (Scenario, Violation, u64) {
    let class = v.class();
    let mut best = sc.clone();
    let mut best_v = v.clone();
    let mut execs = 0u64;
    if let Some(f) = check.focus(sc, v) {
        let mut st = Stats::default();
        execs += 1;
        if let Some(found) = exec(check, &f, &mut st)
            .into_iter()
            .find(|x| x.class() == class)
        {
            best = f;
            best_v = found;
        }
    }
    let start = Instant::now();
    'outer: loop {
        if execs > 20_000 || start.elapsed().as_secs() >= budget_s {
            break;
        }
        let cands = candidates(check, &best);
        for c in cands {
            if weight(&c) >= weight(&best) {
                continue;
            }
            execs += 1;
            let mut st = Stats::default();
            let vs = exec(check, &c, &mut st);
            if let Some(found) = vs.into_iter().find(|x| x.class() == class) {
                best = c;
                best_v = found;
                continue 'outer;
            }
            if execs > 20_000 || start.elapsed().as_secs() >= budget_s {
                break 'outer;
            }
        }
        break;
    }
    (best, best_v, execs)
}

// ------------------------------------------------------------- known findings -

pub struct Known {
    pub property: String,
    pub status: String,
    pub signature: String,
    pub what: String,
}

pub fn load_known() -> Vec<Known> {
    let path = format!("{}/known_findings.json", verif_root());
    let text = match std::fs::read_to_string(&path) {
        Ok(t) => t,
        Err(_) => return Vec::new(),
    };
    let v: Value = match serde_json::from_str(&text) {
        Ok(v) => v,
        Err(e) => {
            eprintln!("pppsim: cannot parse {}: {}", path, e);
            std::process::exit(2);
        }
    };
    let mut out = Vec::new();
    if let Some(a) = v.get("findings").and_then(|x| x.as_array()) {
        for f in a {
            let g = |k: &str| {
                f.get(k)
                    .and_then(|x| x.as_str())
                    .unwrap_or("")
                    .to_string()
            };
            out.push(Known {
                property: g("property"),
                status: g("status"),
                signature: g("signature"),
                what: g("what"),
            });
        }
    }
    out
}

// ------------------------------------------------------------- reporting -----

pub struct Outcome {
    pub exit_code: i32,
}

/// Run one check end to end: batch, grouping, minimisation, replay verification,
/// known findings, probes, evidence.
pub fn run_check(check: &dyn Check, tier: Tier) -> Outcome {
    let master = master_seed();
    let workers = std::env::var("VERIF_WORKERS")
        .ok()
        .and_then(|s| s.parse::<usize>().ok())
        .unwrap_or_else(|| {
            std::thread::available_parallelism()
                .map(|n| n.get())
                .unwrap_or(4)
        })
        .max(1);
    let n = std::env::var("VERIF_RUNS")
        .ok()
        .and_then(|s| s.parse::<u64>().ok())
        .unwrap_or_else(|| check.runs(tier));
    let max_secs = std::env::var("VERIF_MAX_SECS")
        .ok()
        .and_then(|s| s.parse::<f64>().ok())
        .unwrap_or(match tier {
            Tier::Quick => 900.0,
            Tier::Thorough => 4.0 * 3600.0,
        });
    println!(
        "pppsim: check={} tier={} VERIF_SEED={} runs={} workers={} profile={}",
        check.id(),
        tier.name(),
        master,
        n,
        workers,
        build_profile()
    );
    let res = run_batch(check, master, n, tier, workers, max_secs, None);
    let mut stats = res.stats;

    // distinct non-trivial cases
    stats.sigs.sort_unstable();
    stats.sigs.dedup();
    let distinct = stats.sigs.len() as u64;

    // group violations by signature, smallest run index first
    let mut groups: Vec<(u64, Violation, u64)> = Vec::new(); // (first index, violation, count)
    {
        let mut seen: BTreeMap<String, usize> = BTreeMap::new();
        for (i, v) in &res.violations {
            // coarse key before minimisation (the full signature is compared afterwards)
            let head: String = v.shape.chars().take(14).collect();
            let s = format!("{}|{}|{}|{}", v.clause, v.entry, v.result, head);
            match seen.get(&s) {
                Some(&g) => groups[g].2 += 1,
                None => {
                    seen.insert(s, groups.len());
                    groups.push((*i, v.clone(), 1));
                }
            }
        }
    }
    let known = load_known();
    let mut exit_code = 0;
    let mut reported: BTreeSet<String> = BTreeSet::new();
    let mut violation_count = 0u64;
    let mut known_hits = 0u64;
    let mut findings_json: Vec<Value> = Vec::new();
    const MAX_GROUPS: usize = 64;
    if groups.len() > MAX_GROUPS {
        println!(
            "pppsim: {} violation groups (clause|entry|result|shape head) before minimisation; minimising the first {}",
            groups.len(),
            MAX_GROUPS
        );
    }
    // minimisation budget: 20 s per group, 150 s for the whole report
    let report_start = Instant::now();
    let mut order_dependent_reported = 0u32;
    let mut order_dependent_skipped = 0u32;
    let mut unreproducible = 0u32;
    let mut seqscan_done = false;
    for (index, v, count) in groups.iter().take(MAX_GROUPS) {
        let sc = scenario_for(check, master, *index, tier);
        let left = 150u64.saturating_sub(report_start.elapsed().as_secs());
        let (min_sc, min_v, execs) = minimise(check, &sc, v, left.min(20));
        let sig = min_v.signature();
        if !reported.insert(sig.clone()) {
            continue;
        }
        let mut min_sc = min_sc;
        let mut min_v = min_v;
        let mut path = write_replay(check.id(), &min_sc, &min_v, master, *index);
        // the replay must reproduce in a fresh process
        let exe = std::env::current_exe().expect("current_exe");
        let out = std::process::Command::new(exe)
            .arg("replay")
            .arg(&path)
            .arg("--quiet")
            .output();
        let reproduced = matches!(&out, Ok(o) if o.status.code() == Some(1));
        if !reproduced {
            // Not a harness error yet: if the code under test remembers something between calls,
            // a run's outcome depends on the runs before it. Rebuild and minimise that history.
            let _ = std::fs::remove_file(&path);
            if order_dependent_reported >= 3 {
                order_dependent_skipped += 1;
                continue;
            }
            let left = 240u64.saturating_sub(report_start.elapsed().as_secs()).max(20);
            let mut session = order_dependent_session(check, master, tier, *index, v, left.min(90), false)
                .map(|s| (s, v.clone(), *index));
            if session.is_none() && !seqscan_done {
                // state shared between the worker threads: look for a violation in a history
                // that is reproducible by construction (runs 0.. in order, one thread)
                seqscan_done = true;
                if let Some((j, vj)) = seq_scan_child(check, tier, 4000) {
                    let left = 300u64.saturating_sub(report_start.elapsed().as_secs()).max(30);
                    session = order_dependent_session(check, master, tier, j, &vj, left.min(120), true)
                        .map(|s| (s, vj, j));
                }
            }
            let confirmed = match session {
                Some((s, sv, si)) => {
                    let mut mv = sv.clone();
                    mv.detail = format!(
                        "{} [order-dependent: replaying this scenario alone in a fresh process passes; it fails after the {} scenario(s) recorded under scenario.prelude have run on the same thread]",
                        sv.detail,
                        s.prelude.len()
                    );
                    if reproduces_fresh(check.id(), &s, &mv, master, si) {
                        Some((s, mv, si))
                    } else {
                        None
                    }
                }
                None => None,
            };
            match confirmed {
                Some((s, mv, si)) => {
                    order_dependent_reported += 1;
                    min_sc = s;
                    min_v = mv;
                    reported.insert(min_v.signature());
                    path = write_replay(check.id(), &min_sc, &min_v, master, si);
                }
                None => {
                    // keep going: another group may have a witness that does replay
                    eprintln!(
                        "pppsim: the violation of run {} ({}) reproduces neither alone nor after the runs that preceded it, in a fresh process ({:?})",
                        index,
                        v.signature(),
                        out.map(|o| o.status.code())
                    );
                    unreproducible += 1;
                    if unreproducible >= 4 {
                        order_dependent_reported = order_dependent_reported.max(3);
                    }
                    continue;
                }
            }
        }
        let sig = min_v.signature();
        let is_known = known
            .iter()
            .find(|k| k.status == "open" && k.property == check.id() && k.signature == sig);
        findings_json.push(json!({
            "signature": sig,
            "first_run_index": index,
            "occurrences_in_batch": count,
            "shrink_executions": execs,
            "replay": path,
            "known": is_known.is_some(),
            "detail": min_v.detail,
        }));
        match is_known {
            Some(k) => {
                known_hits += 1;
                println!("KNOWN-FINDING: property={} {}", check.id(), k.what);
            }
            None => {
                violation_count += 1;
                exit_code = 1;
                println!("  signature: {}", sig);
                println!("  detail: {}", min_v.detail);
                println!("VIOLATION property={} replay={}", check.id(), path);
            }
        }
    }

    if order_dependent_skipped > 0 {
        println!(
            "pppsim: {} more violation group(s) that do not reproduce alone were not minimised (order-dependent, as the ones reported)",
            order_dependent_skipped
        );
    }

    // probes
    let mut missing: Vec<&'static str> = Vec::new();
    for p in check.required_probes(tier) {
        if stats.get(p) == 0 {
            missing.push(p);
        }
    }

    // evidence
    let mut counters = Map::new();
    for (k, v) in &stats.counters {
        counters.insert(k.to_string(), json!(v));
    }
    for (k, v) in &stats.dyn_counters {
        counters.insert(k.clone(), json!(v));
    }
    let mut faults = Map::new();
    let mut probes = Map::new();
    let mut skipped = Map::new();
    let mut other = Map::new();
    for (k, v) in counters {
        if let Some(r) = k.strip_prefix("fault:") {
            faults.insert(r.to_string(), v);
        } else if let Some(r) = k.strip_prefix("probe:") {
            probes.insert(r.to_string(), v);
        } else if let Some(r) = k.strip_prefix("skip:") {
            skipped.insert(r.to_string(), v);
        } else {
            other.insert(k, v);
        }
    }
    // samples: the first few scenarios of the batch, with their event trace
    let mut samples: Vec<Value> = Vec::new();
    let sample_idx: Vec<u64> = {
        let mut v: Vec<u64> = vec![0, 1, 2];
        if n > 5 {
            v.push(n / 2);
            v.push(n - 1);
        }
        v.retain(|i| *i < n);
        v
    };
    for i in sample_idx {
        let sc = scenario_for(check, master, i, tier);
        let mut st = Stats {
            trace: Some(Vec::new()),
            ..Default::default()
        };
        let vs = check.execute(&sc, &mut st);
        let mut j = sample_json(&sc);
        if let Value::Object(m) = &mut j {
            m.insert("run_index".into(), json!(i));
            m.insert(
                "trace_head".into(),
                json!(st
                    .trace
                    .unwrap_or_default()
                    .into_iter()
                    .take(12)
                    .collect::<Vec<_>>()),
            );
            m.insert("violations".into(), json!(vs.len()));
        }
        samples.push(j);
    }
    let runs_per_hour = if res.wall_s > 0.0 {
        (res.runs_done as f64 / res.wall_s * 3600.0) as u64
    } else {
        0
    };
    // summary of the same batch run by the binary built with the other profile (C03)
    let other_profile: Value = Value::Array(
        std::env::var("VERIF_EMBED")
            .unwrap_or_default()
            .split(':')
            .filter(|p| !p.is_empty())
            .filter_map(|p| std::fs::read_to_string(p).ok())
            .filter_map(|t| serde_json::from_str::<Value>(&t).ok())
            .map(|v| {
                json!({
                    "build_profile": v["coverage"]["build_profile"],
                    "evaluations": v["coverage"]["evaluations"],
                    "events_total": v["coverage"]["events_total"],
                    "batch_digest": v["coverage"]["batch_digest"],
                    "violations": v["violations"],
                    "findings": v["coverage"]["findings"],
                    "wall_s": v["wall_s"],
                })
            })
            .collect(),
    );
    let coverage = json!({
        "evaluations": res.runs_done,
        "other_build_profile_run": other_profile,
        "distinct_nontrivial": distinct,
        "rule": check.rule(),
        "samples": samples,
        "exhaustive": check.exhaustive(tier),
        "oracle_evaluations": stats.oracle_evals,
        "runs_per_hour": runs_per_hour,
        "seeds_per_hour": runs_per_hour,
        "events_total": stats.events,
        "simulated_time_note": "the system under test reads no clock; simulated time is the global event sequence number, reported as events_total",
        "fault_counts": Value::Object(faults),
        "probes": Value::Object(probes),
        "skipped": Value::Object(skipped),
        "counters": Value::Object(other),
        "real_vs_stub": check.real_vs_stub(),
        "batch_digest": format!("{:016x}", stats.batch_digest),
        "truncated": res.truncated,
        "runs_requested": n,
        "workers": workers,
        "build_profile": build_profile(),
        "findings": findings_json,
        "known_findings_matched": known_hits,
        "missing_required_probes": missing,
    });
    let evidence = json!({
        "property_id": check.id(),
        "tier": tier.name(),
        "seed": master,
        "level": check.level(),
        "coverage": coverage,
        "assumptions": check.assumptions(),
        "wall_s": res.wall_s,
        "violations": violation_count,
    });
    write_evidence(check.id(), &evidence);

    println!(
        "pppsim: {} runs in {:.1}s ({} runs/h), {} events, {} oracle evaluations, {} distinct cases, digest {:016x}{}",
        res.runs_done,
        res.wall_s,
        runs_per_hour,
        stats.events,
        stats.oracle_evals,
        distinct,
        stats.batch_digest,
        if res.truncated { " TRUNCATED" } else { "" }
    );
    if exit_code == 0 && unreproducible > 0 {
        eprintln!(
            "pppsim: harness error: {} violation group(s) were seen in the batch but none could be reproduced from a replay file in a fresh process (neither alone nor after the runs that preceded it)",
            unreproducible
        );
        return Outcome { exit_code: 2 };
    }
    if exit_code == 0 && !missing.is_empty() {
        eprintln!(
            "pppsim: harness error: required probes never hit: {:?} (the workload must change)",
            missing
        );
        return Outcome { exit_code: 2 };
    }
    if exit_code == 0 {
        println!(
            "pppsim: OK property={} held on everything explored",
            check.id()
        );
    }
    Outcome { exit_code }
}

pub fn build_profile() -> &'static str {
    // (the three profiles live in target/release, target/checked and target/debug)
    let dev = std::env::current_exe()
        .map(|p| p.to_string_lossy().contains("/target/debug/"))
        .unwrap_or(false);
    if dev {
        "dev (opt-level 0, overflow-checks, debug-assertions on)"
    } else if cfg!(debug_assertions) {
        "checked (opt-level 3, overflow-checks, debug-assertions on)"
    } else {
        "release (overflow-checks off)"
    }
}

fn evidence_suffix() -> String {
    std::env::var("VERIF_EVIDENCE_SUFFIX").unwrap_or_default()
}

pub fn write_evidence(id: &str, evidence: &Value) {
    let dir = std::env::var("VERIF_EVIDENCE_DIR")
        .unwrap_or_else(|_| format!("{}/evidence", verif_root()));
    let _ = std::fs::create_dir_all(&dir);
    let path = std::env::var("VERIF_EVIDENCE_PATH")
        .unwrap_or_else(|_| format!("{}/{}{}.json", dir, id, evidence_suffix()));
    let tmp = format!("{}.tmp", path);
    std::fs::write(&tmp, serde_json::to_string_pretty(evidence).unwrap())
        .expect("cannot write evidence");
    std::fs::rename(&tmp, &path).expect("cannot move evidence into place");
}

pub fn sample_json(sc: &Scenario) -> Value {
    let mut j = Map::new();
    j.insert("sub".into(), json!(sc.sub));
    j.insert("entry".into(), json!(sc.entry.name()));
    j.insert("bufcap".into(), json!(sc.bufcap));
    if !sc.stream.is_empty() {
        j.insert("stream".into(), json!(printable(&sc.stream, 160)));
        j.insert("stream_len".into(), json!(sc.stream.len()));
    }
    if !sc.events.is_empty() {
        let evs: Vec<String> = sc
            .events
            .iter()
            .take(24)
            .map(|e| match e {
                Ev::Deliver(n) => format!("deliver({})", n),
                Ev::Eintr => "eintr".into(),
                Ev::Stall => "stall".into(),
                Ev::Eof => "eof".into(),
                Ev::Reset => "reset".into(),
            })
            .collect();
        j.insert("events_head".into(), json!(evs));
        j.insert("events_len".into(), json!(sc.events.len()));
    }
    if sc.ctor.is_some() {
        let full = sc.to_json();
        j.insert("ctor".into(), full.get("ctor").cloned().unwrap_or(Value::Null));
        j.insert("ops".into(), full.get("ops").cloned().unwrap_or(Value::Null));
    }
    for (k, v) in &sc.tags {
        if v.len() <= 200 {
            j.insert(format!("tag:{}", k), json!(v));
        }
    }
    for (k, v) in &sc.meta {
        j.insert(format!("meta:{}", k), json!(v));
    }
    Value::Object(j)
}

/// `pppsim seqscan <ID> <tier> <limit>`: execute the runs 0..limit in order on ONE thread of this
/// (fresh) process and print the first violation as one line of JSON. Used when violations seen
/// in the parallel batch cannot be reproduced: with state shared between threads the history
/// that led to them is spread over the workers, while this history is reproducible by
/// construction.
pub fn seq_scan(check: &dyn Check, tier: Tier, limit: u64, max_secs: u64) {
    let master = master_seed();
    let start = Instant::now();
    for i in 0..limit {
        let sc = scenario_for(check, master, i, tier);
        let mut st = Stats::default();
        let vs = check.execute(&sc, &mut st);
        if let Some(v) = vs.into_iter().next() {
            println!(
                "{}",
                json!({"index": i, "prop": v.prop, "clause": v.clause, "entry": v.entry, "shape": v.shape, "result": v.result, "detail": v.detail})
            );
            return;
        }
        if start.elapsed().as_secs() >= max_secs {
            return;
        }
    }
}

fn seq_scan_child(check: &dyn Check, tier: Tier, limit: u64) -> Option<(u64, Violation)> {
    let exe = std::env::current_exe().ok()?;
    // (bounded: a run that never returns must not hang the report)
    let mut child = std::process::Command::new(exe)
        .args(["seqscan", check.id(), tier.name(), &limit.to_string()])
        .env("VERIF_NO_SUPERVISOR", "1")
        .stdout(std::process::Stdio::piped())
        .stderr(std::process::Stdio::null())
        .spawn()
        .ok()?;
    let started = Instant::now();
    loop {
        match child.try_wait() {
            Ok(Some(_)) => break,
            Ok(None) if started.elapsed().as_secs() > 90 => {
                let _ = child.kill();
                let _ = child.wait();
                return None;
            }
            Ok(None) => std::thread::sleep(std::time::Duration::from_millis(50)),
            Err(_) => return None,
        }
    }
    let mut text = String::new();
    {
        use std::io::Read;
        child.stdout.take()?.read_to_string(&mut text).ok()?;
    }
    let line = text.lines().find(|l| l.starts_with('{'))?;
    let v: Value = serde_json::from_str(line).ok()?;
    let g = |k: &str| v.get(k).and_then(|x| x.as_str()).unwrap_or("").to_string();
    Some((
        v.get("index")?.as_u64()?,
        Violation {
            prop: g("prop"),
            clause: g("clause"),
            entry: g("entry"),
            shape: g("shape"),
            result: g("result"),
            detail: g("detail"),
            focus: None,
        },
    ))
}

// ------------------------------------------------------------- crashes -------

/// Execute the runs lo..hi on all cores, ignoring violations (used to bisect a crash).
pub fn run_range(check: &dyn Check, tier: Tier, lo: u64, hi: u64) {
    let master = master_seed();
    let workers = std::thread::available_parallelism()
        .map(|n| n.get())
        .unwrap_or(4);
    let next = AtomicU64::new(lo);
    std::thread::scope(|scope| {
        for _ in 0..workers {
            scope.spawn(|| loop {
                let i = next.fetch_add(1, Ordering::Relaxed);
                if i >= hi {
                    break;
                }
                let sc = scenario_for(check, master, i, tier);
                let mut st = Stats::default();
                let _ = check.execute(&sc, &mut st);
            });
        }
    });
}

/// The batch process died from a signal. Find the run that kills it by bisection over run
/// indices (every run is a pure function of its index), write its scenario as a replay file,
/// confirm that replaying it kills a fresh process too, and report it.
pub fn crashed_batch(check: &dyn Check, tier: Tier, how: &str) -> i32 {
    let master = master_seed();
    let n = std::env::var("VERIF_RUNS")
        .ok()
        .and_then(|s| s.parse::<u64>().ok())
        .unwrap_or_else(|| check.runs(tier));
    println!(
        "pppsim: the batch process of {} died ({}); bisecting the run index",
        check.id(),
        how
    );
    let exe = std::env::current_exe().expect("current_exe");
    let tier_name = tier.name().to_string();
    let dies = |lo: u64, hi: u64| -> bool {
        let st = std::process::Command::new(&exe)
            .args(["range", check.id(), &tier_name, &lo.to_string(), &hi.to_string()])
            .stdout(std::process::Stdio::null())
            .stderr(std::process::Stdio::null())
            .status();
        matches!(st, Ok(s) if s.code().is_none())
    };
    let (mut lo, mut hi) = (0u64, n);
    if !dies(lo, hi) {
        eprintln!("pppsim: harness error: the crash did not reproduce when the runs were repeated");
        return 2;
    }
    while hi - lo > 1 {
        let mid = lo + (hi - lo) / 2;
        if dies(lo, mid) {
            hi = mid;
        } else {
            lo = mid;
        }
    }
    let index = lo;
    let sc = scenario_for(check, master, index, tier);
    let v = Violation {
        prop: check.id().to_string(),
        clause: "abort".into(),
        entry: sc.entry.name().into(),
        shape: shape(&sc.stream),
        result: how.to_string(),
        focus: None,
        detail: format!(
            "run {} kills the process ({}): a fatal error inside the code under test (stack overflow, abort or similar), which catch_unwind cannot contain",
            index, how
        ),
    };
    let path = write_replay(check.id(), &sc, &v, master, index);
    // the replay must kill a fresh process too
    let st = std::process::Command::new(&exe)
        .args(["replay", &path, "--quiet"])
        .env("VERIF_NO_SUPERVISOR", "1")
        .stdout(std::process::Stdio::null())
        .stderr(std::process::Stdio::null())
        .status();
    if !matches!(st, Ok(s) if s.code().is_none()) {
        eprintln!(
            "pppsim: harness error: replay {} does not kill a fresh process",
            path
        );
        return 2;
    }
    println!("  signature: {}", v.signature());
    println!("  detail: {}", v.detail);
    println!("VIOLATION property={} replay={}", check.id(), path);
    1
}

