//! A scenario is plain data: executing it is a pure function of the scenario and
//! of the code in /repo. A replay file is the JSON form of one scenario plus the
//! violation it produced, so a replay does not depend on the generators.

use serde_json::{json, Map, Value};

#[derive(Clone, Copy, Debug, PartialEq, Eq, Hash, PartialOrd, Ord)]
pub enum Entry {
    Auto,
    V1Bytes,
    V1Text,
    V1FromStrHeader,
    V1FromStrAddr,
    V2,
}

impl Entry {
    pub const ALL: [Entry; 6] = [
        Entry::Auto,
        Entry::V1Bytes,
        Entry::V1Text,
        Entry::V1FromStrHeader,
        Entry::V1FromStrAddr,
        Entry::V2,
    ];
    pub const V1_ALL: [Entry; 4] = [
        Entry::V1Bytes,
        Entry::V1Text,
        Entry::V1FromStrHeader,
        Entry::V1FromStrAddr,
    ];
    pub fn name(self) -> &'static str {
        match self {
            Entry::Auto => "auto",
            Entry::V1Bytes => "v1-bytes",
            Entry::V1Text => "v1-text",
            Entry::V1FromStrHeader => "v1-fromstr-header",
            Entry::V1FromStrAddr => "v1-fromstr-addresses",
            Entry::V2 => "v2",
        }
    }
    pub fn from_name(s: &str) -> Option<Entry> {
        Entry::ALL.iter().copied().find(|e| e.name() == s)
    }
    pub fn is_text(self) -> bool {
        matches!(
            self,
            Entry::V1Text | Entry::V1FromStrHeader | Entry::V1FromStrAddr
        )
    }
}

/// One transport event, as seen from the receiver's socket.
#[derive(Clone, Copy, Debug, PartialEq, Eq)]
pub enum Ev {
    /// n more bytes of the stream become readable
    Deliver(usize),
    /// read() fails with EINTR / EWOULDBLOCK: no bytes, retry with the same buffer
    Eintr,
    /// the peer stops sending and keeps the connection open; the run quiesces
    Stall,
    /// orderly close by the peer
    Eof,
    /// connection reset
    Reset,
}

/// One operation of a builder history (C09 / C10).
#[derive(Clone, Debug, PartialEq)]
pub enum BOp {
    Reserve(usize),
    SetLength(Option<u16>),
    /// single write_payload
    Write(Payload),
    /// write_payloads with a batch
    Batch(Vec<Payload>),
    /// write_payloads with a batch handed over as a lazy iterator (style: 0 = filter,
    /// 1 = from_fn, 2 = chain of two halves, 3 = flat_map) whose size_hint lower bound is 0
    BatchLazy(Vec<Payload>, u8),
    /// write_tlv(kind, value)
    WriteTlv(u8, Fill),
    /// writer histories (C20) only: raw `io::Write::write_all` of these bytes (builds up
    /// "whatever the writer already holds"; a no-op in builder histories)
    RawWrite(Fill),
}

/// How a byte string of a given length is filled (keeps replay files small).
#[derive(Clone, Debug, PartialEq)]
pub struct Fill {
    pub len: usize,
    pub seed: u64,
}

impl Fill {
    pub fn bytes(&self) -> Vec<u8> {
        // deterministic filler: cheap LCG stream, never all-equal so that order matters
        let mut v = Vec::with_capacity(self.len);
        let mut x = self.seed | 1;
        for i in 0..self.len {
            x = x
                .wrapping_mul(6364136223846793005)
                .wrapping_add(1442695040888963407);
            v.push(((x >> 33) as u8) ^ (i as u8));
        }
        // one fill in four starts with bytes that mean something elsewhere in the protocol
        let piece: &[u8] = match self.seed % 16 {
            0 => b"\r\n\r\n\0\r\nQUIT\n\x21\x11\x00\x0c",
            1 => b"\nPROXY TCP4 1.2.3.4 5.6.7.8 1 2\r\n",
            2 => b"\x01vpce-08d2bf15fac5001c9",
            3 if self.len == 36 => {
                // an IPv4-mapped IPv6 address pair
                for base in [0usize, 16] {
                    for b in v[base..base + 10].iter_mut() {
                        *b = 0;
                    }
                    v[base + 10] = 0xff;
                    v[base + 11] = 0xff;
                }
                b""
            }
            4 if self.len >= 3 => {
                // the whole value is itself an encoded TLV (type 0x04) of exactly this size
                v[0] = 0x04;
                let inner = (self.len - 3).min(65535) as u16;
                v[1..3].copy_from_slice(&inner.to_be_bytes());
                b""
            }
            _ => b"",
        };
        let n = piece.len().min(v.len());
        v[..n].copy_from_slice(&piece[..n]);
        v
    }
}

#[derive(Clone, Debug, PartialEq)]
pub enum Payload {
    U8(u8),
    U16(u16),
    U32(u32),
    U64(u64),
    U128(u128),
    Usize(usize),
    I8(i8),
    I16(i16),
    I32(i32),
    I64(i64),
    I128(i128),
    Isize(isize),
    Slice(Fill),
    /// Addresses value of the given family (1 = IPv4, 2 = IPv6, 3 = Unix, 0 = Unspecified)
    Addr(u8, Fill),
    /// TypeLengthValue struct
    TlvStruct(u8, Fill),
    /// (u8, &[u8]) tuple
    TlvTuple(u8, Fill),
    /// (Type, &[u8]) tuple with a registered type (index into the Type table)
    TlvTyped(u8, Fill),
    /// a TypeLengthValues section (raw bytes)
    Section(Fill),
    /// a TypeLengthValues section whose iterator was advanced by `k` next() calls before it is written
    SectionAdvanced(u8, Fill),
    /// a bare Type (index into the Type table)
    Type(u8),
}

#[derive(Clone, Debug, PartialEq)]
pub enum Ctor {
    New { vc: u8, afp: u8 },
    /// with_addresses(vc, protocol, addresses of family `fam` filled from `fill`)
    WithAddresses { vc: u8, proto: u8, fam: u8, fill: Fill },
}

/// Another connection handled by the same thread as the judged one: its bytes arrive in its own
/// buffer (or, as `Scenario::recycled`, in the judged connection's buffer before that connection
/// starts) and its receiver calls the same library routines at each of the `cuts` (buffer
/// lengths). Its verdicts are not judged; it exists because a library that remembers anything
/// between calls is only exposed by calls made on behalf of someone else.
#[derive(Clone, Debug, PartialEq)]
pub struct Neighbor {
    pub entry: Entry,
    pub stream: Vec<u8>,
    pub cuts: Vec<usize>,
}

#[derive(Clone, Debug)]
pub struct Scenario {
    /// property id of the check that owns this scenario
    pub check: String,
    /// sub-batch / generator branch (informational and for evidence)
    pub sub: String,
    pub entry: Entry,
    /// receiver buffer capacity; 0 = growable
    pub bufcap: usize,
    /// the bytes on the wire after every fault has been applied
    pub stream: Vec<u8>,
    /// length of the header as the sender intended it (informational; never an oracle for acceptance)
    pub intended_header_len: usize,
    pub events: Vec<Ev>,
    /// auxiliary seed for on-the-spot choices inside the executor (adversarial trailers, noise)
    pub aux: u64,
    /// free-form integer metadata for the owning check (element index, declared length, ...)
    pub meta: Vec<(String, i64)>,
    /// free-form string metadata
    pub tags: Vec<(String, String)>,
    /// builder history
    pub ctor: Option<Ctor>,
    pub ops: Vec<BOp>,
    /// scenarios that are executed first, in this order, on the same thread (their verdicts are
    /// not judged): the replay form of a violation that only manifests after other runs, i.e.
    /// when the code under test carries hidden state from one call to the next
    pub prelude: Vec<Scenario>,
    /// the previous user of the judged connection's receive buffer (buffer pool): parsed at each
    /// of its cuts in the very same allocation, then abandoned; the judged connection's bytes
    /// then overwrite it at the same address
    pub recycled: Option<Neighbor>,
    /// connections whose receive steps are interleaved with the judged connection's steps
    /// (one step of each neighbour before every step of the judged receiver)
    pub neighbors: Vec<Neighbor>,
}

impl Scenario {
    pub fn new(check: &str, sub: &str) -> Scenario {
        Scenario {
            check: check.to_string(),
            sub: sub.to_string(),
            entry: Entry::Auto,
            bufcap: 0,
            stream: Vec::new(),
            intended_header_len: 0,
            events: Vec::new(),
            aux: 0,
            meta: Vec::new(),
            tags: Vec::new(),
            ctor: None,
            ops: Vec::new(),
            prelude: Vec::new(),
            recycled: None,
            neighbors: Vec::new(),
        }
    }
    pub fn meta(&self, k: &str) -> Option<i64> {
        self.meta.iter().find(|(n, _)| n == k).map(|(_, v)| *v)
    }
    pub fn set_meta(&mut self, k: &str, v: i64) {
        if let Some(e) = self.meta.iter_mut().find(|(n, _)| n == k) {
            e.1 = v;
        } else {
            self.meta.push((k.to_string(), v));
        }
    }
    pub fn tag(&self, k: &str) -> Option<&str> {
        self.tags
            .iter()
            .find(|(n, _)| n == k)
            .map(|(_, v)| v.as_str())
    }
    pub fn set_tag(&mut self, k: &str, v: &str) {
        if let Some(e) = self.tags.iter_mut().find(|(n, _)| n == k) {
            e.1 = v.to_string();
        } else {
            self.tags.push((k.to_string(), v.to_string()));
        }
    }

    pub fn to_json(&self) -> Value {
        let mut m = Map::new();
        m.insert("check".into(), json!(self.check));
        m.insert("sub".into(), json!(self.sub));
        m.insert("entry".into(), json!(self.entry.name()));
        m.insert("bufcap".into(), json!(self.bufcap));
        m.insert("stream_hex".into(), json!(hex(&self.stream)));
        m.insert("stream_text".into(), json!(printable(&self.stream, 200)));
        m.insert(
            "intended_header_len".into(),
            json!(self.intended_header_len),
        );
        m.insert(
            "events".into(),
            Value::Array(self.events.iter().map(ev_to_json).collect()),
        );
        m.insert("aux".into(), json!(self.aux.to_string()));
        let mut mm = Map::new();
        for (k, v) in &self.meta {
            mm.insert(k.clone(), json!(v));
        }
        m.insert("meta".into(), Value::Object(mm));
        let mut tt = Map::new();
        for (k, v) in &self.tags {
            tt.insert(k.clone(), json!(v));
        }
        m.insert("tags".into(), Value::Object(tt));
        if let Some(c) = &self.ctor {
            m.insert("ctor".into(), ctor_to_json(c));
        }
        if !self.ops.is_empty() || self.ctor.is_some() {
            m.insert(
                "ops".into(),
                Value::Array(self.ops.iter().map(bop_to_json).collect()),
            );
        }
        if let Some(n) = &self.recycled {
            m.insert("recycled_buffer".into(), neighbor_to_json(n));
        }
        if !self.neighbors.is_empty() {
            m.insert(
                "neighbors".into(),
                Value::Array(self.neighbors.iter().map(neighbor_to_json).collect()),
            );
        }
        if !self.prelude.is_empty() {
            m.insert(
                "prelude".into(),
                Value::Array(self.prelude.iter().map(|p| p.to_json()).collect()),
            );
        }
        Value::Object(m)
    }

    pub fn from_json(v: &Value) -> Result<Scenario, String> {
        let o = v.as_object().ok_or("scenario is not an object")?;
        let s = |k: &str| -> Result<&str, String> {
            o.get(k)
                .and_then(|x| x.as_str())
                .ok_or(format!("missing string {}", k))
        };
        let mut sc = Scenario::new(s("check")?, s("sub")?);
        sc.entry = Entry::from_name(s("entry")?).ok_or("bad entry")?;
        sc.bufcap = o.get("bufcap").and_then(|x| x.as_u64()).unwrap_or(0) as usize;
        sc.stream = unhex(s("stream_hex")?)?;
        sc.intended_header_len = o
            .get("intended_header_len")
            .and_then(|x| x.as_u64())
            .unwrap_or(0) as usize;
        if let Some(a) = o.get("events").and_then(|x| x.as_array()) {
            for e in a {
                sc.events.push(ev_from_json(e)?);
            }
        }
        sc.aux = s("aux")?.parse::<u64>().map_err(|e| e.to_string())?;
        if let Some(m) = o.get("meta").and_then(|x| x.as_object()) {
            for (k, v) in m {
                sc.meta
                    .push((k.clone(), v.as_i64().ok_or("meta not integer")?));
            }
        }
        if let Some(m) = o.get("tags").and_then(|x| x.as_object()) {
            for (k, v) in m {
                sc.tags
                    .push((k.clone(), v.as_str().ok_or("tag not string")?.to_string()));
            }
        }
        if let Some(c) = o.get("ctor") {
            sc.ctor = Some(ctor_from_json(c)?);
        }
        if let Some(a) = o.get("ops").and_then(|x| x.as_array()) {
            for e in a {
                sc.ops.push(bop_from_json(e)?);
            }
        }
        if let Some(n) = o.get("recycled_buffer") {
            sc.recycled = Some(neighbor_from_json(n)?);
        }
        if let Some(a) = o.get("neighbors").and_then(|x| x.as_array()) {
            for e in a {
                sc.neighbors.push(neighbor_from_json(e)?);
            }
        }
        if let Some(a) = o.get("prelude").and_then(|x| x.as_array()) {
            for e in a {
                sc.prelude.push(Scenario::from_json(e)?);
            }
        }
        Ok(sc)
    }
}

fn neighbor_to_json(n: &Neighbor) -> Value {
    json!({
        "entry": n.entry.name(),
        "stream_hex": hex(&n.stream),
        "stream_text": printable(&n.stream, 120),
        "cuts": n.cuts,
    })
}

fn neighbor_from_json(v: &Value) -> Result<Neighbor, String> {
    Ok(Neighbor {
        entry: Entry::from_name(v.get("entry").and_then(|x| x.as_str()).ok_or("neighbor.entry")?)
            .ok_or("bad neighbor entry")?,
        stream: unhex(v.get("stream_hex").and_then(|x| x.as_str()).ok_or("neighbor.stream_hex")?)?,
        cuts: v
            .get("cuts")
            .and_then(|x| x.as_array())
            .ok_or("neighbor.cuts")?
            .iter()
            .map(|c| c.as_u64().map(|c| c as usize).ok_or("neighbor.cut".to_string()))
            .collect::<Result<Vec<_>, _>>()?,
    })
}

pub fn hex(b: &[u8]) -> String {
    let mut s = String::with_capacity(b.len() * 2);
    for x in b {
        s.push_str(&format!("{:02x}", x));
    }
    s
}

pub fn unhex(s: &str) -> Result<Vec<u8>, String> {
    if s.len() % 2 != 0 {
        return Err("odd hex".into());
    }
    (0..s.len() / 2)
        .map(|i| u8::from_str_radix(&s[2 * i..2 * i + 2], 16).map_err(|e| e.to_string()))
        .collect()
}

/// Human-readable rendering of bytes for logs and evidence samples.
pub fn printable(b: &[u8], max: usize) -> String {
    let mut s = String::new();
    for (i, x) in b.iter().enumerate() {
        if i >= max {
            s.push_str(&format!("...(+{} bytes)", b.len() - max));
            break;
        }
        match *x {
            b'\r' => s.push_str("\\r"),
            b'\n' => s.push_str("\\n"),
            b'\\' => s.push_str("\\\\"),
            0x20..=0x7e => s.push(*x as char),
            _ => s.push_str(&format!("\\x{:02x}", x)),
        }
    }
    s
}

fn ev_to_json(e: &Ev) -> Value {
    match e {
        Ev::Deliver(n) => json!({ "deliver": n }),
        Ev::Eintr => json!("eintr"),
        Ev::Stall => json!("stall"),
        Ev::Eof => json!("eof"),
        Ev::Reset => json!("reset"),
    }
}

fn ev_from_json(v: &Value) -> Result<Ev, String> {
    if let Some(s) = v.as_str() {
        return match s {
            "eintr" => Ok(Ev::Eintr),
            "stall" => Ok(Ev::Stall),
            "eof" => Ok(Ev::Eof),
            "reset" => Ok(Ev::Reset),
            _ => Err(format!("bad event {}", s)),
        };
    }
    v.get("deliver")
        .and_then(|x| x.as_u64())
        .map(|n| Ev::Deliver(n as usize))
        .ok_or_else(|| "bad event".to_string())
}

fn fill_to_json(f: &Fill) -> Value {
    json!({ "len": f.len, "seed": f.seed.to_string() })
}
fn fill_from_json(v: &Value) -> Result<Fill, String> {
    Ok(Fill {
        len: v.get("len").and_then(|x| x.as_u64()).ok_or("fill.len")? as usize,
        seed: v
            .get("seed")
            .and_then(|x| x.as_str())
            .ok_or("fill.seed")?
            .parse::<u64>()
            .map_err(|e| e.to_string())?,
    })
}

fn payload_to_json(p: &Payload) -> Value {
    match p {
        Payload::U8(x) => json!({"t":"u8","v":x.to_string()}),
        Payload::U16(x) => json!({"t":"u16","v":x.to_string()}),
        Payload::U32(x) => json!({"t":"u32","v":x.to_string()}),
        Payload::U64(x) => json!({"t":"u64","v":x.to_string()}),
        Payload::U128(x) => json!({"t":"u128","v":x.to_string()}),
        Payload::Usize(x) => json!({"t":"usize","v":x.to_string()}),
        Payload::I8(x) => json!({"t":"i8","v":x.to_string()}),
        Payload::I16(x) => json!({"t":"i16","v":x.to_string()}),
        Payload::I32(x) => json!({"t":"i32","v":x.to_string()}),
        Payload::I64(x) => json!({"t":"i64","v":x.to_string()}),
        Payload::I128(x) => json!({"t":"i128","v":x.to_string()}),
        Payload::Isize(x) => json!({"t":"isize","v":x.to_string()}),
        Payload::Slice(f) => json!({"t":"slice","fill":fill_to_json(f)}),
        Payload::Addr(k, f) => json!({"t":"addr","k":k,"fill":fill_to_json(f)}),
        Payload::TlvStruct(k, f) => json!({"t":"tlv_struct","k":k,"fill":fill_to_json(f)}),
        Payload::TlvTuple(k, f) => json!({"t":"tlv_tuple","k":k,"fill":fill_to_json(f)}),
        Payload::TlvTyped(k, f) => json!({"t":"tlv_typed","k":k,"fill":fill_to_json(f)}),
        Payload::Section(f) => json!({"t":"section","fill":fill_to_json(f)}),
        Payload::SectionAdvanced(k, f) => json!({"t":"section_advanced","k":k,"fill":fill_to_json(f)}),
        Payload::Type(k) => json!({"t":"type","k":k}),
    }
}

fn payload_from_json(v: &Value) -> Result<Payload, String> {
    let t = v.get("t").and_then(|x| x.as_str()).ok_or("payload.t")?;
    let sv = || -> Result<&str, String> {
        v.get("v")
            .and_then(|x| x.as_str())
            .ok_or("payload.v".to_string())
    };
    let k = || -> Result<u8, String> {
        v.get("k")
            .and_then(|x| x.as_u64())
            .map(|x| x as u8)
            .ok_or("payload.k".to_string())
    };
    let f = || -> Result<Fill, String> { fill_from_json(v.get("fill").ok_or("payload.fill")?) };
    macro_rules! num {
        ($variant:ident, $ty:ty) => {
            Payload::$variant(sv()?.parse::<$ty>().map_err(|e| e.to_string())?)
        };
    }
    Ok(match t {
        "u8" => num!(U8, u8),
        "u16" => num!(U16, u16),
        "u32" => num!(U32, u32),
        "u64" => num!(U64, u64),
        "u128" => num!(U128, u128),
        "usize" => num!(Usize, usize),
        "i8" => num!(I8, i8),
        "i16" => num!(I16, i16),
        "i32" => num!(I32, i32),
        "i64" => num!(I64, i64),
        "i128" => num!(I128, i128),
        "isize" => num!(Isize, isize),
        "slice" => Payload::Slice(f()?),
        "addr" => Payload::Addr(k()?, f()?),
        "tlv_struct" => Payload::TlvStruct(k()?, f()?),
        "tlv_tuple" => Payload::TlvTuple(k()?, f()?),
        "tlv_typed" => Payload::TlvTyped(k()?, f()?),
        "section" => Payload::Section(f()?),
        "section_advanced" => Payload::SectionAdvanced(k()?, f()?),
        "type" => Payload::Type(k()?),
        _ => return Err(format!("bad payload type {}", t)),
    })
}

fn bop_to_json(op: &BOp) -> Value {
    match op {
        BOp::Reserve(n) => json!({"op":"reserve_capacity","n":n}),
        BOp::SetLength(l) => json!({"op":"set_length","len":l}),
        BOp::Write(p) => json!({"op":"write_payload","payload":payload_to_json(p)}),
        BOp::Batch(ps) => {
            json!({"op":"write_payloads","payloads":ps.iter().map(payload_to_json).collect::<Vec<_>>()})
        }
        BOp::BatchLazy(ps, style) => {
            json!({"op":"write_payloads_lazy","style":style,"payloads":ps.iter().map(payload_to_json).collect::<Vec<_>>()})
        }
        BOp::WriteTlv(k, f) => json!({"op":"write_tlv","k":k,"fill":fill_to_json(f)}),
        BOp::RawWrite(f) => json!({"op":"io_write_all","fill":fill_to_json(f)}),
    }
}

fn bop_from_json(v: &Value) -> Result<BOp, String> {
    let op = v.get("op").and_then(|x| x.as_str()).ok_or("op.op")?;
    Ok(match op {
        "reserve_capacity" => {
            BOp::Reserve(v.get("n").and_then(|x| x.as_u64()).ok_or("op.n")? as usize)
        }
        "set_length" => BOp::SetLength(match v.get("len") {
            Some(Value::Null) | None => None,
            Some(x) => Some(x.as_u64().ok_or("op.len")? as u16),
        }),
        "write_payload" => BOp::Write(payload_from_json(v.get("payload").ok_or("op.payload")?)?),
        "write_payloads" => BOp::Batch(
            v.get("payloads")
                .and_then(|x| x.as_array())
                .ok_or("op.payloads")?
                .iter()
                .map(payload_from_json)
                .collect::<Result<Vec<_>, _>>()?,
        ),
        "write_payloads_lazy" => BOp::BatchLazy(
            v.get("payloads")
                .and_then(|x| x.as_array())
                .ok_or("op.payloads")?
                .iter()
                .map(payload_from_json)
                .collect::<Result<Vec<_>, _>>()?,
            v.get("style").and_then(|x| x.as_u64()).unwrap_or(0) as u8,
        ),
        "write_tlv" => BOp::WriteTlv(
            v.get("k").and_then(|x| x.as_u64()).ok_or("op.k")? as u8,
            fill_from_json(v.get("fill").ok_or("op.fill")?)?,
        ),
        "io_write_all" => BOp::RawWrite(fill_from_json(v.get("fill").ok_or("op.fill")?)?),
        _ => return Err(format!("bad op {}", op)),
    })
}

fn ctor_to_json(c: &Ctor) -> Value {
    match c {
        Ctor::New { vc, afp } => json!({"ctor":"new","vc":vc,"afp":afp}),
        Ctor::WithAddresses {
            vc,
            proto,
            fam,
            fill,
        } => json!({"ctor":"with_addresses","vc":vc,"proto":proto,"fam":fam,"fill":fill_to_json(fill)}),
    }
}

fn ctor_from_json(v: &Value) -> Result<Ctor, String> {
    let u = |k: &str| -> Result<u8, String> {
        v.get(k)
            .and_then(|x| x.as_u64())
            .map(|x| x as u8)
            .ok_or(format!("ctor.{}", k))
    };
    match v.get("ctor").and_then(|x| x.as_str()) {
        Some("new") => Ok(Ctor::New {
            vc: u("vc")?,
            afp: u("afp")?,
        }),
        Some("with_addresses") => Ok(Ctor::WithAddresses {
            vc: u("vc")?,
            proto: u("proto")?,
            fam: u("fam")?,
            fill: fill_from_json(v.get("fill").ok_or("ctor.fill")?)?,
        }),
        _ => Err("bad ctor".into()),
    }
}
