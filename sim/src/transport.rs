//! The transport between sender and receiver: a reliable ordered byte stream
//! whose read boundaries, interruptions and end (stall / EOF / reset) are decided
//! by the seeded scheduler. Loss, duplication and reordering are not simulated
//! (TCP hides them above the socket, see DESIGN.md §2.3).

use crate::rng::Rng;
use crate::scenario::Ev;

#[derive(Clone, Copy, Debug, PartialEq, Eq)]
pub enum Style {
    /// the whole stream in one read
    Whole,
    /// one byte per read (what examples/one_byte.rs does on the sending side)
    ByteAtATime,
    /// random chunk sizes
    Random,
    /// boundaries placed on the supplied hot positions (element boundaries)
    Hot,
    /// header in one read, then the trailer
    HeaderThenRest,
}

#[derive(Clone, Copy, Debug)]
pub struct Cfg {
    pub style: Style,
    /// percentage of reads preceded by an EINTR
    pub eintr_pct: usize,
    /// how the connection ends after the last byte (or after `cut_at`)
    pub end: Ev,
    /// the peer goes away after this many bytes (None = sends everything)
    pub cut_at: Option<usize>,
}

#[derive(Default, Debug, Clone)]
pub struct FaultCounts {
    pub segments: u64,
    pub short_reads: u64,
    pub eintr: u64,
    pub stalls: u64,
    pub eofs: u64,
    pub resets: u64,
    pub truncations: u64,
}

pub fn pick_style(rng: &mut Rng) -> Style {
    match rng.below(10) {
        0 => Style::Whole,
        1 | 2 => Style::ByteAtATime,
        3 | 4 | 5 => Style::Random,
        6 | 7 | 8 => Style::Hot,
        _ => Style::HeaderThenRest,
    }
}

pub fn pick_end(rng: &mut Rng) -> Ev {
    match rng.below(4) {
        0 => Ev::Eof,
        1 => Ev::Reset,
        _ => Ev::Stall,
    }
}

/// Build the event list for a stream of `len` bytes.
pub fn schedule(
    rng: &mut Rng,
    len: usize,
    header_len: usize,
    hot: &[usize],
    cfg: Cfg,
    counts: &mut FaultCounts,
) -> Vec<Ev> {
    let total = cfg.cut_at.map(|c| c.min(len)).unwrap_or(len);
    if cfg.cut_at.is_some() && total < len {
        counts.truncations += 1;
    }
    let mut cuts: Vec<usize> = Vec::new();
    match cfg.style {
        Style::Whole => {}
        Style::ByteAtATime => {
            // every position up to a bound, then larger chunks (long v2 payloads)
            let dense = total.min(header_len.max(1) + 8).min(600);
            cuts.extend(1..dense);
            let mut p = dense.max(1);
            while p < total {
                cuts.push(p);
                p += rng.range(1, 4096);
            }
        }
        Style::Random => {
            let mut p = 0usize;
            while p < total {
                let step = match rng.below(6) {
                    0 => 1,
                    1 => rng.range(1, 3),
                    2 => rng.range(1, 16),
                    3 => rng.range(1, 128),
                    4 => rng.range(1, 2048),
                    _ => rng.range(1, total.max(1)),
                };
                p += step;
                if p < total {
                    cuts.push(p);
                }
            }
        }
        Style::Hot => {
            for &h in hot {
                if h > 0 && h < total && rng.chance(1, 2) {
                    cuts.push(h);
                }
            }
            if cuts.is_empty() && !hot.is_empty() {
                let h = *rng.pick(hot);
                if h > 0 && h < total {
                    cuts.push(h);
                }
            }
        }
        Style::HeaderThenRest => {
            if header_len > 0 && header_len < total {
                cuts.push(header_len);
            }
        }
    }
    cuts.sort_unstable();
    cuts.dedup();
    let mut evs = Vec::with_capacity(cuts.len() * 2 + 3);
    let mut prev = 0usize;
    let emit = |n: usize, evs: &mut Vec<Ev>, rng: &mut Rng, counts: &mut FaultCounts| {
        if cfg.eintr_pct > 0 && rng.below(100) < cfg.eintr_pct {
            evs.push(Ev::Eintr);
            counts.eintr += 1;
        }
        evs.push(Ev::Deliver(n));
        counts.segments += 1;
    };
    for c in cuts {
        if c > prev && c <= total {
            emit(c - prev, &mut evs, rng, counts);
            prev = c;
        }
    }
    if total > prev {
        emit(total - prev, &mut evs, rng, counts);
    }
    match cfg.end {
        Ev::Stall => counts.stalls += 1,
        Ev::Eof => counts.eofs += 1,
        Ev::Reset => counts.resets += 1,
        _ => {}
    }
    evs.push(cfg.end);
    evs
}

/// Schedule that visits every cut point in `0..upto` (one byte per read) and then
/// delivers the rest in one read.
pub fn every_cut(len: usize, upto: usize) -> Vec<Ev> {
    let mut evs = Vec::new();
    let dense = upto.min(len);
    for _ in 0..dense {
        evs.push(Ev::Deliver(1));
    }
    if len > dense {
        evs.push(Ev::Deliver(len - dense));
    }
    evs.push(Ev::Stall);
    evs
}
