//! Builder call histories (C09, C10): a seeded sequence of public `Builder` calls
//! is executed against the real builder and against a reference model that shares
//! no code with the crate.

use crate::rng::Rng;
use crate::scenario::{BOp, Ctor, Fill, Payload, Scenario};
use crate::wire::V2_SIG;
use ppp::v2::{
    Addresses, Builder, IPv4, IPv6, Protocol, Type, TypeLengthValue, TypeLengthValues, Unix,
    WriteToHeader, Writer,
};
use std::io;

/// Registered TLV types and their codes, from the PROXY protocol specification
/// (section 2.2.x), not from the crate.
pub const TYPE_TABLE: [(Type, u8); 12] = [
    (Type::ALPN, 0x01),
    (Type::Authority, 0x02),
    (Type::CRC32C, 0x03),
    (Type::NoOp, 0x04),
    (Type::UniqueId, 0x05),
    (Type::SSL, 0x20),
    (Type::SSLVersion, 0x21),
    (Type::SSLCommonName, 0x22),
    (Type::SSLCipher, 0x23),
    (Type::SSLSignatureAlgorithm, 0x24),
    (Type::SSLKeyAlgorithm, 0x25),
    (Type::NetworkNamespace, 0x30),
];

/// Constructor families: 0..3 = typed Addresses values; 0x11 / 0x12 = an IPv4 / IPv6 pair of
/// `SocketAddr`s handed to `with_addresses` as a tuple (what accept() / peer_addr() give).
pub fn family_size(fam: u8) -> usize {
    match fam & 0x0f {
        1 => 12,
        2 => 36,
        3 => 216,
        _ => 0,
    }
}

/// Address block of a constructor. Socket-address pairs are link-local (fe80::/10) with a
/// non-zero scope id for one fill in four: the block on the wire does not depend on the scope.
fn ctor_addr_bytes(fam: u8, f: &Fill) -> Vec<u8> {
    let mut v = addr_fill(fam, f);
    if fam == 0x12 && f.seed % 4 == 0 {
        for base in [0usize, 16] {
            v[base] = 0xfe;
            v[base + 1] = 0x80;
            for b in v[base + 2..base + 8].iter_mut() {
                *b = 0;
            }
        }
    }
    v
}

fn socket_pair(fam: u8, bytes: &[u8], seed: u64) -> (std::net::SocketAddr, std::net::SocketAddr) {
    use std::net::{Ipv4Addr, Ipv6Addr, SocketAddr, SocketAddrV4, SocketAddrV6};
    if fam == 0x11 {
        let s = SocketAddrV4::new(
            Ipv4Addr::new(bytes[0], bytes[1], bytes[2], bytes[3]),
            u16::from_be_bytes([bytes[8], bytes[9]]),
        );
        let d = SocketAddrV4::new(
            Ipv4Addr::new(bytes[4], bytes[5], bytes[6], bytes[7]),
            u16::from_be_bytes([bytes[10], bytes[11]]),
        );
        (SocketAddr::V4(s), SocketAddr::V4(d))
    } else {
        let mut a = [0u8; 16];
        let mut b = [0u8; 16];
        a.copy_from_slice(&bytes[..16]);
        b.copy_from_slice(&bytes[16..32]);
        let scope = if seed % 2 == 0 { (seed >> 8) as u32 % 7 } else { 0 };
        let flow = if seed % 3 == 0 { (seed >> 16) as u32 & 0xfffff } else { 0 };
        let s = SocketAddrV6::new(Ipv6Addr::from(a), u16::from_be_bytes([bytes[32], bytes[33]]), flow, scope);
        let d = SocketAddrV6::new(Ipv6Addr::from(b), u16::from_be_bytes([bytes[34], bytes[35]]), flow, scope);
        (SocketAddr::V6(s), SocketAddr::V6(d))
    }
}

/// Address value of family `fam` whose wire block is exactly `bytes`.
pub fn addresses_from(fam: u8, bytes: &[u8]) -> Addresses {
    match fam {
        1 => Addresses::IPv4(IPv4::new(
            [bytes[0], bytes[1], bytes[2], bytes[3]],
            [bytes[4], bytes[5], bytes[6], bytes[7]],
            u16::from_be_bytes([bytes[8], bytes[9]]),
            u16::from_be_bytes([bytes[10], bytes[11]]),
        )),
        2 => {
            let mut s = [0u8; 16];
            let mut d = [0u8; 16];
            s.copy_from_slice(&bytes[..16]);
            d.copy_from_slice(&bytes[16..32]);
            Addresses::IPv6(IPv6::new(
                s,
                d,
                u16::from_be_bytes([bytes[32], bytes[33]]),
                u16::from_be_bytes([bytes[34], bytes[35]]),
            ))
        }
        3 => {
            let mut s = [0u8; 108];
            let mut d = [0u8; 108];
            s.copy_from_slice(&bytes[..108]);
            d.copy_from_slice(&bytes[108..216]);
            Addresses::Unix(Unix::new(s, d))
        }
        _ => Addresses::Unspecified,
    }
}

fn addr_fill(fam: u8, f: &Fill) -> Vec<u8> {
    Fill {
        len: family_size(fam),
        seed: f.seed,
    }
    .bytes()
}

// ------------------------------------------------------------ reference ------

/// Specification encoding of one payload.
pub fn ref_encode(p: &Payload) -> Vec<u8> {
    fn tlv(k: u8, v: Vec<u8>) -> Vec<u8> {
        let mut out = vec![k, (v.len() >> 8) as u8, (v.len() & 0xff) as u8];
        out.extend(v);
        out
    }
    match p {
        Payload::U8(x) => vec![*x],
        Payload::U16(x) => vec![(*x >> 8) as u8, *x as u8],
        Payload::U32(x) => (0..4).rev().map(|i| (*x >> (8 * i)) as u8).collect(),
        Payload::U64(x) => (0..8).rev().map(|i| (*x >> (8 * i)) as u8).collect(),
        Payload::U128(x) => (0..16).rev().map(|i| (*x >> (8 * i)) as u8).collect(),
        Payload::Usize(x) => (0..std::mem::size_of::<usize>())
            .rev()
            .map(|i| (*x >> (8 * i)) as u8)
            .collect(),
        Payload::I8(x) => vec![*x as u8],
        Payload::I16(x) => {
            let u = *x as u16;
            vec![(u >> 8) as u8, u as u8]
        }
        Payload::I32(x) => {
            let u = *x as u32;
            (0..4).rev().map(|i| (u >> (8 * i)) as u8).collect()
        }
        Payload::I64(x) => {
            let u = *x as u64;
            (0..8).rev().map(|i| (u >> (8 * i)) as u8).collect()
        }
        Payload::I128(x) => {
            let u = *x as u128;
            (0..16).rev().map(|i| (u >> (8 * i)) as u8).collect()
        }
        Payload::Isize(x) => {
            let u = *x as usize;
            (0..std::mem::size_of::<usize>())
                .rev()
                .map(|i| (u >> (8 * i)) as u8)
                .collect()
        }
        Payload::Slice(f) => f.bytes(),
        Payload::Addr(fam, f) => addr_fill(*fam, f),
        Payload::TlvStruct(k, f) | Payload::TlvTuple(k, f) => tlv(*k, f.bytes()),
        Payload::TlvTyped(i, f) => tlv(TYPE_TABLE[*i as usize % 12].1, f.bytes()),
        Payload::Section(f) | Payload::SectionAdvanced(_, f) => f.bytes(),
        Payload::Type(i) => vec![TYPE_TABLE[*i as usize % 12].1],
    }
}

/// Must this single write fail according to the property (a TLV value or a byte
/// slice longer than 65535 bytes)?
pub fn must_fail(p: &Payload) -> bool {
    match p {
        Payload::Slice(f)
        | Payload::TlvStruct(_, f)
        | Payload::TlvTuple(_, f)
        | Payload::TlvTyped(_, f) => f.len > 65535,
        _ => false,
    }
}

#[derive(Debug, Clone)]
pub struct Model {
    pub vc: u8,
    pub afp: u8,
    pub addr_block: Vec<u8>,
    pub payload: Vec<u8>,
    pub length_override: Option<u16>,
    /// index of the first op the property obliges to fail (oversized value), if any
    pub obligatory_failure_at: Option<usize>,
    /// probes
    pub set_length_after_first_write: bool,
    pub set_length_none_after_some: bool,
    pub reserve_after_write: bool,
    pub writes: usize,
}

pub fn run_model(ctor: &Ctor, ops: &[BOp]) -> Model {
    let (vc, afp, addr_block) = match ctor {
        Ctor::New { vc, afp } => (*vc, *afp, Vec::new()),
        Ctor::WithAddresses {
            vc,
            proto,
            fam,
            fill,
        } => (
            *vc,
            ((fam & 0x0f) << 4) | (proto & 0x0f),
            ctor_addr_bytes(*fam, fill),
        ),
    };
    let mut m = Model {
        vc,
        afp,
        addr_block,
        payload: Vec::new(),
        length_override: None,
        obligatory_failure_at: None,
        set_length_after_first_write: false,
        set_length_none_after_some: false,
        reserve_after_write: false,
        writes: 0,
    };
    for (i, op) in ops.iter().enumerate() {
        match op {
            BOp::Reserve(_) => {
                if m.writes > 0 {
                    m.reserve_after_write = true;
                }
            }
            BOp::SetLength(l) => {
                if m.writes > 0 && l.is_some() {
                    m.set_length_after_first_write = true;
                }
                if l.is_none() && m.length_override.is_some() {
                    m.set_length_none_after_some = true;
                }
                m.length_override = *l;
            }
            BOp::Write(p) => {
                m.writes += 1;
                if must_fail(p) {
                    m.obligatory_failure_at = Some(i);
                    break;
                }
                m.payload.extend(ref_encode(p));
            }
            BOp::Batch(ps) | BOp::BatchLazy(ps, _) => {
                m.writes += 1;
                let mut failed = false;
                for p in ps {
                    if must_fail(p) {
                        failed = true;
                        break;
                    }
                    m.payload.extend(ref_encode(p));
                }
                if failed {
                    m.obligatory_failure_at = Some(i);
                    break;
                }
            }
            BOp::WriteTlv(k, f) => {
                m.writes += 1;
                let p = Payload::TlvStruct(*k, f.clone());
                if must_fail(&p) {
                    m.obligatory_failure_at = Some(i);
                    break;
                }
                m.payload.extend(ref_encode(&p));
            }
            BOp::RawWrite(_) => {}
        }
    }
    m
}

impl Model {
    pub fn body_len(&self) -> usize {
        self.addr_block.len() + self.payload.len()
    }
    /// Expected output with the length field masked to zero.
    pub fn expected_masked(&self) -> Vec<u8> {
        let mut v = V2_SIG.to_vec();
        v.push(self.vc);
        v.push(self.afp);
        v.extend_from_slice(&[0, 0]);
        v.extend_from_slice(&self.addr_block);
        v.extend_from_slice(&self.payload);
        v
    }
}

// ------------------------------------------------------------ real -----------

/// Harness payload that delegates to the real `WriteToHeader` impl of the value it wraps.
pub enum P<'a> {
    U8(u8),
    U16(u16),
    U32(u32),
    U64(u64),
    U128(u128),
    Usize(usize),
    I8(i8),
    I16(i16),
    I32(i32),
    I64(i64),
    I128(i128),
    Isize(isize),
    Slice(&'a [u8]),
    Addr(Addresses),
    Tlv(TypeLengthValue<'a>),
    Tuple((u8, &'a [u8])),
    Typed((Type, &'a [u8])),
    Section(TypeLengthValues<'a>),
    Type(Type),
}

impl<'a> WriteToHeader for P<'a> {
    fn write_to(&self, w: &mut Writer) -> io::Result<usize> {
        match self {
            P::U8(x) => x.write_to(w),
            P::U16(x) => x.write_to(w),
            P::U32(x) => x.write_to(w),
            P::U64(x) => x.write_to(w),
            P::U128(x) => x.write_to(w),
            P::Usize(x) => x.write_to(w),
            P::I8(x) => x.write_to(w),
            P::I16(x) => x.write_to(w),
            P::I32(x) => x.write_to(w),
            P::I64(x) => x.write_to(w),
            P::I128(x) => x.write_to(w),
            P::Isize(x) => x.write_to(w),
            P::Slice(x) => x.write_to(w),
            P::Addr(x) => x.write_to(w),
            P::Tlv(x) => x.write_to(w),
            P::Tuple(x) => x.write_to(w),
            P::Typed(x) => x.write_to(w),
            P::Section(x) => x.write_to(w),
            P::Type(x) => x.write_to(w),
        }
    }
}

pub fn to_p<'a>(p: &Payload, data: &'a [u8]) -> P<'a> {
    match p {
        Payload::U8(x) => P::U8(*x),
        Payload::U16(x) => P::U16(*x),
        Payload::U32(x) => P::U32(*x),
        Payload::U64(x) => P::U64(*x),
        Payload::U128(x) => P::U128(*x),
        Payload::Usize(x) => P::Usize(*x),
        Payload::I8(x) => P::I8(*x),
        Payload::I16(x) => P::I16(*x),
        Payload::I32(x) => P::I32(*x),
        Payload::I64(x) => P::I64(*x),
        Payload::I128(x) => P::I128(*x),
        Payload::Isize(x) => P::Isize(*x),
        Payload::Slice(_) => P::Slice(data),
        Payload::Addr(fam, _) => P::Addr(addresses_from(*fam, data)),
        Payload::TlvStruct(k, f) => {
            let t = TypeLengthValue::new(*k, data);
            // one in three is an owned value (what to_owned() on a parsed TLV gives)
            if f.seed % 3 == 0 {
                P::Tlv(t.to_owned())
            } else {
                P::Tlv(t)
            }
        }
        Payload::TlvTuple(k, _) => P::Tuple((*k, data)),
        Payload::TlvTyped(i, _) => P::Typed((TYPE_TABLE[*i as usize % 12].0, data)),
        Payload::Section(_) => P::Section(TypeLengthValues::from(data)),
        Payload::SectionAdvanced(k, _) => {
            // the caller looked at some of the TLVs before forwarding the section
            let mut it = TypeLengthValues::from(data);
            for _ in 0..*k {
                let _ = it.next();
            }
            P::Section(it)
        }
        Payload::Type(i) => P::Type(TYPE_TABLE[*i as usize % 12].0),
    }
}

pub fn payload_data(p: &Payload) -> Vec<u8> {
    match p {
        Payload::Slice(f)
        | Payload::TlvStruct(_, f)
        | Payload::TlvTuple(_, f)
        | Payload::TlvTyped(_, f)
        | Payload::Section(f)
        | Payload::SectionAdvanced(_, f) => f.bytes(),
        Payload::Addr(fam, f) => addr_fill(*fam, f),
        _ => Vec::new(),
    }
}

#[derive(Debug, Clone, PartialEq)]
pub enum RealOutcome {
    Built(Vec<u8>),
    /// a write_* call returned Err at this op index
    WriteFailed(usize),
    BuildFailed,
}

/// The builder a history starts from.
pub fn make_builder(ctor: &Ctor) -> Builder {
    match ctor {
        Ctor::New { vc, afp } => Builder::new(*vc, *afp),
        Ctor::WithAddresses {
            vc,
            proto,
            fam,
            fill,
        } => {
            let protocol = match proto % 3 {
                0 => Protocol::Unspecified,
                1 => Protocol::Stream,
                _ => Protocol::Datagram,
            };
            let bytes = ctor_addr_bytes(*fam, fill);
            match fam {
                0x11 | 0x12 => Builder::with_addresses(*vc, protocol, socket_pair(*fam, &bytes, fill.seed)),
                // exercise the From<IPv4 / IPv6 / Unix> conversions as a caller would
                1 => match addresses_from(1, &bytes) {
                    Addresses::IPv4(a) => Builder::with_addresses(*vc, protocol, a),
                    other => Builder::with_addresses(*vc, protocol, other),
                },
                2 => match addresses_from(2, &bytes) {
                    Addresses::IPv6(a) => Builder::with_addresses(*vc, protocol, a),
                    other => Builder::with_addresses(*vc, protocol, other),
                },
                3 => match addresses_from(3, &bytes) {
                    Addresses::Unix(a) => Builder::with_addresses(*vc, protocol, a),
                    other => Builder::with_addresses(*vc, protocol, other),
                },
                _ => Builder::with_addresses(*vc, protocol, Addresses::Unspecified),
            }
        }
    }
}

/// Apply one operation of a history to the real `Builder` (Err = the call returned an error).
pub fn apply_op(mut b: Builder, op: &BOp) -> Result<Builder, ()> {
        match op {
            BOp::Reserve(n) => b = b.reserve_capacity(*n),
            BOp::SetLength(l) => b = b.set_length(*l),
            BOp::Write(p) => {
                let data = payload_data(p);
                // through the real impl of the concrete type (not the harness enum) where a
                // caller would naturally use it
                let r = match p {
                    Payload::Slice(_) => b.write_payload(data.as_slice()),
                    Payload::TlvStruct(k, f) => {
                        let t = TypeLengthValue::new(*k, data.as_slice());
                        match f.seed % 3 {
                            0 => b.write_payload(t.to_owned()),
                            1 => b.write_payload(&t),
                            _ => b.write_payload(t),
                        }
                    }
                    Payload::TlvTuple(k, _) => b.write_payload((*k, data.as_slice())),
                    // every kind through its own concrete type, by value or by reference (a
                    // harness wrapper would hide anything the trait gains later)
                    Payload::U8(x) => b.write_payload(*x),
                    Payload::U16(x) => b.write_payload(*x),
                    Payload::U32(x) => b.write_payload(*x),
                    Payload::U64(x) => b.write_payload(*x),
                    Payload::U128(x) => b.write_payload(*x),
                    Payload::Usize(x) => b.write_payload(*x),
                    Payload::I8(x) => b.write_payload(*x),
                    Payload::I16(x) => b.write_payload(*x),
                    Payload::I32(x) => b.write_payload(x),
                    Payload::I64(x) => b.write_payload(*x),
                    Payload::I128(x) => b.write_payload(x),
                    Payload::Isize(x) => b.write_payload(*x),
                    Payload::Addr(fam, f) => {
                        let a = addresses_from(*fam, &data);
                        if f.seed % 2 == 0 {
                            b.write_payload(a)
                        } else {
                            b.write_payload(&a)
                        }
                    }
                    Payload::TlvTyped(i, _) => {
                        b.write_payload((TYPE_TABLE[*i as usize % 12].0, data.as_slice()))
                    }
                    Payload::Type(i) => b.write_payload(TYPE_TABLE[*i as usize % 12].0),
                    Payload::Section(_) => b.write_payload(TypeLengthValues::from(data.as_slice())),
                    _ => b.write_payload(to_p(p, &data)),
                };
                match r {
                    Ok(nb) => b = nb,
                    Err(_) => return Err(()),
                }
            }
            BOp::Batch(ps) => {
                let datas: Vec<Vec<u8>> = ps.iter().map(payload_data).collect();
                let all = |f: fn(&Payload) -> bool| !ps.is_empty() && ps.iter().all(f);
                let r = if all(|p| matches!(p, Payload::Slice(_))) {
                    let v: Vec<&[u8]> = datas.iter().map(|d| d.as_slice()).collect();
                    b.write_payloads(v)
                } else if all(|p| matches!(p, Payload::TlvStruct(..))) {
                    let v: Vec<TypeLengthValue> = ps
                        .iter()
                        .zip(datas.iter())
                        .map(|(p, d)| match p {
                            Payload::TlvStruct(k, f) => {
                                let t = TypeLengthValue::new(*k, d.as_slice());
                                if f.seed % 3 == 0 {
                                    t.to_owned()
                                } else {
                                    t
                                }
                            }
                            _ => unreachable!(),
                        })
                        .collect();
                    b.write_payloads(v)
                } else if all(|p| matches!(p, Payload::TlvTuple(..))) {
                    let v: Vec<(u8, &[u8])> = ps
                        .iter()
                        .zip(datas.iter())
                        .map(|(p, d)| match p {
                            Payload::TlvTuple(k, _) => (*k, d.as_slice()),
                            _ => unreachable!(),
                        })
                        .collect();
                    b.write_payloads(v)
                } else if all(|p| matches!(p, Payload::Type(_))) {
                    let v: Vec<Type> = ps
                        .iter()
                        .map(|p| match p {
                            Payload::Type(i) => TYPE_TABLE[*i as usize % 12].0,
                            _ => unreachable!(),
                        })
                        .collect();
                    b.write_payloads(v)
                } else {
                    let v: Vec<P> = ps
                        .iter()
                        .zip(datas.iter())
                        .map(|(p, d)| to_p(p, d))
                        .collect();
                    b.write_payloads(v)
                };
                match r {
                    Ok(nb) => b = nb,
                    Err(_) => return Err(()),
                }
            }
            BOp::BatchLazy(ps, style) => {
                let datas: Vec<Vec<u8>> = ps.iter().map(payload_data).collect();
                let v: Vec<P> = ps
                    .iter()
                    .zip(datas.iter())
                    .map(|(p, d)| to_p(p, d))
                    .collect();
                let r = match style % 5 {
                    4 => b.write_payloads(v.into_iter().map(|p| {
                        // the caller assembles an unrelated blob with another builder while this
                        // batch is being consumed (re-entrant use of the builder machinery)
                        let _ = Builder::new(0x21, 0x00)
                            .write_payloads([7u8, 9u8])
                            .and_then(|n| n.write_tlv(4u8, &[1u8, 2, 3][..]))
                            .and_then(|n| n.build());
                        p
                    })),
                    0 => b.write_payloads(v.into_iter().filter(|_| true)),
                    1 => {
                        let mut it = v.into_iter();
                        b.write_payloads(std::iter::from_fn(move || it.next()))
                    }
                    2 => {
                        let mut first = v;
                        let second = first.split_off(first.len() / 2);
                        b.write_payloads(
                            first
                                .into_iter()
                                .filter(|_| true)
                                .chain(second.into_iter().filter(|_| true)),
                        )
                    }
                    _ => b.write_payloads(v.into_iter().flat_map(|p| std::iter::once(p))),
                };
                match r {
                    Ok(nb) => b = nb,
                    Err(_) => return Err(()),
                }
            }
            BOp::WriteTlv(k, f) => {
                let data = f.bytes();
                match b.write_tlv(*k, data.as_slice()) {
                    Ok(nb) => b = nb,
                    Err(_) => return Err(()),
                }
            }
            BOp::RawWrite(_) => {}
        }
    Ok(b)
}

/// Execute the history against the real `Builder`.
pub fn run_real(ctor: &Ctor, ops: &[BOp]) -> RealOutcome {
    let mut b = make_builder(ctor);
    for (i, op) in ops.iter().enumerate() {
        b = match apply_op(b, op) {
            Ok(nb) => nb,
            Err(()) => return RealOutcome::WriteFailed(i),
        };
    }
    match b.build() {
        Ok(v) => RealOutcome::Built(v),
        Err(_) => RealOutcome::BuildFailed,
    }
}

/// Execute two histories on two builders alternately (one operation of each in turn, the other
/// builder finishing — or failing — whenever its turn comes): what a caller does that assembles
/// two headers side by side. Returns the outcome of the first.
pub fn run_real_interleaved(ctor: &Ctor, ops: &[BOp], other_ctor: &Ctor, other_ops: &[BOp]) -> RealOutcome {
    let mut a = make_builder(ctor);
    let mut other = Some(make_builder(other_ctor));
    let mut j = 0usize;
    let mut step_other = |other: &mut Option<Builder>, j: &mut usize| {
        if let Some(b) = other.take() {
            if *j < other_ops.len() {
                *other = apply_op(b, &other_ops[*j]).ok();
                *j += 1;
            } else {
                let _ = b.build();
            }
        }
    };
    for (i, op) in ops.iter().enumerate() {
        step_other(&mut other, &mut j);
        a = match apply_op(a, op) {
            Ok(nb) => nb,
            Err(()) => return RealOutcome::WriteFailed(i),
        };
    }
    step_other(&mut other, &mut j);
    match a.build() {
        Ok(v) => RealOutcome::Built(v),
        Err(_) => RealOutcome::BuildFailed,
    }
}

// ------------------------------------------------------------ generation -----

fn gen_fill_len(rng: &mut Rng, big: bool) -> usize {
    if big {
        match rng.below(10) {
            0 => 65535,
            1 => 65536,
            2 => 65532,
            3 => 65533,
            4 => 40000,
            5 => 65535 - 12,
            6 => 65535 - 36,
            7 => 65535 - 216,
            8 => rng.range(60000, 70000),
            _ => rng.range(0, 65535),
        }
    } else {
        match rng.below(8) {
            0 => 0,
            1 => 1,
            2 => 255,
            3 => 256,
            _ => rng.range(0, 40),
        }
    }
}

fn gen_fill(rng: &mut Rng, big: bool) -> Fill {
    Fill {
        len: gen_fill_len(rng, big),
        seed: rng.next_u64(),
    }
}

/// An integer for a payload: half of the time a boundary value (small, around the edges of
/// every narrower width, all-ones), so that an encoder that narrows or widens by value, or
/// special-cases zero, is exercised; otherwise 128 random bits (the caller truncates).
fn gen_int(rng: &mut Rng) -> u128 {
    if rng.chance(1, 2) {
        let base: u128 = *rng.pick(&[
            0u128,
            1,
            2,
            0x7f,
            0x80,
            0xff,
            0x100,
            0x7fff,
            0x8000,
            0xffff,
            0x1_0000,
            0x7fff_ffff,
            0x8000_0000,
            0xffff_ffff,
            0x1_0000_0000,
            0x7fff_ffff_ffff_ffff,
            0x8000_0000_0000_0000,
            0xffff_ffff_ffff_ffff,
            0x1_0000_0000_0000_0000,
            u128::MAX >> 1,
            1u128 << 127,
            u128::MAX,
            0x0102_0304_0506_0708_090a_0b0c_0d0e_0f10,
        ]);
        match rng.below(4) {
            0 => base.wrapping_neg(),
            1 => base.wrapping_sub(1),
            _ => base,
        }
    } else {
        ((rng.next_u64() as u128) << 64) | rng.next_u64() as u128
    }
}

pub fn gen_payload(rng: &mut Rng, big: bool) -> Payload {
    let k = rng.byte();
    match rng.below(19) {
        0 => Payload::U8(gen_int(rng) as u8),
        1 => Payload::U16(gen_int(rng) as u16),
        2 => Payload::U32(gen_int(rng) as u32),
        3 => Payload::U64(gen_int(rng) as u64),
        4 => Payload::U128(gen_int(rng)),
        5 => Payload::Usize(gen_int(rng) as usize),
        6 => Payload::I8(gen_int(rng) as i8),
        7 => Payload::I16(gen_int(rng) as i16),
        8 => Payload::I32(gen_int(rng) as i32),
        9 => Payload::I64(gen_int(rng) as i64),
        10 => Payload::I128(gen_int(rng) as i128),
        11 => Payload::Isize(gen_int(rng) as isize),
        12 => Payload::Slice(gen_fill(rng, big)),
        13 => Payload::Addr(rng.range(0, 3) as u8, gen_fill(rng, false)),
        14 => Payload::TlvStruct(k, gen_fill(rng, big)),
        15 => Payload::TlvTuple(k, gen_fill(rng, big)),
        16 => Payload::TlvTyped(rng.below(12) as u8, gen_fill(rng, big)),
        17 => {
            let b = big && rng.chance(1, 2);
            if rng.chance(1, 2) {
                Payload::Section(gen_fill(rng, b))
            } else {
                // a well-formed little section some of whose TLVs were already looked at
                Payload::SectionAdvanced(rng.range(0, 3) as u8, gen_fill(rng, false))
            }
        }
        _ => Payload::Type(rng.below(12) as u8),
    }
}

pub fn gen_ctor(rng: &mut Rng) -> Ctor {
    if rng.chance(1, 2) {
        Ctor::New {
            vc: if rng.chance(3, 4) {
                0x20 | rng.below(2) as u8
            } else {
                rng.byte()
            },
            afp: if rng.chance(3, 4) {
                ((rng.below(4) as u8) << 4) | rng.below(3) as u8
            } else {
                rng.byte()
            },
        }
    } else {
        Ctor::WithAddresses {
            vc: 0x20 | rng.below(2) as u8,
            proto: rng.below(3) as u8,
            fam: *rng.pick(&[0u8, 1, 2, 3, 1, 2, 0x11, 0x12]),
            fill: Fill {
                len: 0,
                seed: rng.next_u64(),
            },
        }
    }
}

/// A seeded history of at most 12 operations.
pub fn gen_history(rng: &mut Rng, sc: &mut Scenario) {
    // directed families first (same machinery, pinned choices): histories whose writes emit
    // nothing, and histories that keep writing after the buffer is over-full
    match rng.below(10) {
        0 => {
            let ctor = if rng.chance(1, 2) {
                Ctor::New {
                    vc: 0x21,
                    afp: 0x00,
                }
            } else {
                Ctor::WithAddresses {
                    vc: 0x20,
                    proto: rng.below(3) as u8,
                    fam: if rng.chance(3, 4) { 0 } else { *rng.pick(&[1u8, 2, 3, 0x11, 0x12]) },
                    fill: Fill {
                        len: 0,
                        seed: rng.next_u64(),
                    },
                }
            };
            let n = rng.range(1, 6);
            let mut ops = Vec::new();
            for _ in 0..n {
                let empty = Fill {
                    len: 0,
                    seed: rng.next_u64(),
                };
                ops.push(match rng.below(9) {
                    0 | 1 => BOp::SetLength(Some(*rng.pick(&[1u16, 3, 12, 258, 65535]))),
                    2 => BOp::SetLength(None),
                    3 => BOp::Write(Payload::Slice(empty)),
                    4 => BOp::Batch(Vec::new()),
                    5 => BOp::BatchLazy(Vec::new(), rng.below(4) as u8),
                    6 => BOp::Write(Payload::Addr(0, empty)),
                    7 => BOp::Write(Payload::SectionAdvanced(rng.below(2) as u8, empty)),
                    _ => BOp::Reserve(rng.range(0, 64)),
                });
            }
            sc.sub = "history_empty_writes".into();
            sc.ctor = Some(ctor);
            sc.ops = ops;
            return;
        }
        1 => {
            let ctor = gen_ctor(rng);
            let mut ops = Vec::new();
            if rng.chance(1, 2) {
                ops.push(BOp::SetLength(Some(rng.below(65536) as u16)));
            }
            // fill the buffer past a full-size header (65551 bytes), or just short of it
            let mut total = 0usize;
            let goal = *rng.pick(&[65_500usize, 65_536, 65_552, 65_600, 70_000]);
            while total < goal {
                let l = (goal - total).min(*rng.pick(&[65_535usize, 40_000, 30_000, 20_000]));
                ops.push(BOp::Write(Payload::Slice(Fill {
                    len: l,
                    seed: rng.next_u64(),
                })));
                total += l;
            }
            let k = rng.range(1, 3);
            for _ in 0..k {
                ops.push(match rng.below(4) {
                    0 => BOp::Write(Payload::Type(rng.below(12) as u8)),
                    1 => BOp::Batch(vec![Payload::Type(rng.below(12) as u8), gen_payload(rng, false)]),
                    2 => BOp::Write(Payload::Slice(Fill {
                        len: 0,
                        seed: 1,
                    })),
                    _ => BOp::Write(gen_payload(rng, false)),
                });
            }
            if rng.chance(2, 3) {
                ops.push(BOp::SetLength(Some(rng.below(65536) as u16)));
            }
            sc.sub = "history_overfull".into();
            sc.ctor = Some(ctor);
            sc.ops = ops;
            return;
        }
        3 if rng.chance(1, 2) => {
            // room reserved (or grown) first, then a single value above 65535 bytes: the
            // size limit must not depend on the buffer's spare capacity
            let ctor = gen_ctor(rng);
            let mut ops = Vec::new();
            if rng.chance(1, 3) {
                ops.push(BOp::SetLength(Some(rng.below(65536) as u16)));
            }
            match rng.below(3) {
                0 => ops.push(BOp::Reserve(*rng.pick(&[65_536usize, 70_000, 131_072, 1 << 20]))),
                1 => {
                    // growth by doubling: a large write, a small one, then the oversize one
                    ops.push(BOp::Write(Payload::Slice(Fill {
                        len: *rng.pick(&[65_535usize, 40_000, 33_000]),
                        seed: rng.next_u64(),
                    })));
                    ops.push(BOp::Write(Payload::U8(1)));
                }
                _ => {
                    ops.push(BOp::Write(gen_payload(rng, false)));
                    ops.push(BOp::Reserve(200_000));
                }
            }
            let f = Fill {
                len: *rng.pick(&[65_536usize, 65_537, 70_000]),
                seed: rng.next_u64(),
            };
            ops.push(match rng.below(6) {
                0 | 1 => BOp::Write(Payload::Slice(f)),
                2 => BOp::Write(Payload::TlvStruct(rng.byte(), f)),
                3 => BOp::Write(Payload::TlvTuple(rng.byte(), f)),
                4 => BOp::Batch(vec![gen_payload(rng, false), Payload::Slice(f)]),
                _ => BOp::WriteTlv(rng.byte(), f),
            });
            if rng.chance(1, 2) {
                ops.push(BOp::SetLength(Some(rng.below(65536) as u16)));
            }
            sc.sub = "history_reserved_oversize".into();
            sc.ctor = Some(ctor);
            sc.ops = ops;
            return;
        }
        2 if rng.chance(1, 40) => {
            // one batch with more items than a 16-bit counter holds
            let ctor = gen_ctor(rng);
            let n = 65_536 + rng.range(0, 40);
            let items: Vec<Payload> = (0..n).map(|i| Payload::U8(i as u8)).collect();
            let mut ops = vec![if rng.chance(1, 2) {
                BOp::Batch(items)
            } else {
                BOp::BatchLazy(items, rng.below(4) as u8)
            }];
            if rng.chance(1, 2) {
                ops.insert(0, BOp::SetLength(Some(rng.below(65536) as u16)));
            }
            if rng.chance(1, 2) {
                ops.push(BOp::Write(gen_payload(rng, false)));
            }
            sc.sub = "history_huge_batch".into();
            sc.ctor = Some(ctor);
            sc.ops = ops;
            return;
        }
        _ => {}
    }
    let ctor = gen_ctor(rng);
    let mut ops: Vec<BOp> = Vec::new();
    // how large this history gets: mostly small, sometimes around the 65535 boundary
    let big_mode = rng.below(5) == 0;
    let n = match rng.below(6) {
        0 => 0,
        1 => 1,
        2 => 2,
        _ => rng.range(1, 12),
    };
    let mut bigs_left = if big_mode { rng.range(1, 2) } else { 0 };
    for _ in 0..n {
        let big = bigs_left > 0 && rng.chance(1, 2);
        if big {
            bigs_left -= 1;
        }
        let op = match rng.below(12) {
            0 => BOp::Reserve(*rng.pick(&[0usize, 1, 16, 4096, 1 << 20])),
            1 | 2 => {
                // earlier explicit lengths of this history, for byte-swapped twins
                let earlier: Vec<u16> = ops
                    .iter()
                    .filter_map(|o| match o {
                        BOp::SetLength(Some(x)) => Some(*x),
                        _ => None,
                    })
                    .collect();
                let running = {
                    let m = run_model(&ctor, &ops);
                    (m.body_len() % 65536) as u16
                };
                BOp::SetLength(match rng.below(9) {
                    8 => Some(running),
                    0 => None,
                    1 => Some(0),
                    2 => Some(65535),
                    3 => Some(rng.below(300) as u16),
                    4 => Some(*rng.pick(&[1u16, 255, 256, 257, 0x1234, 0x3412, 0x00ff, 0xff00])),
                    5 if !earlier.is_empty() => Some(rng.pick(&earlier).swap_bytes()),
                    _ => Some(rng.below(65536) as u16),
                })
            }
            3..=6 => BOp::Write(gen_payload(rng, big)),
            7 | 8 => {
                let k = rng.range(0, 6);
                let homogeneous = rng.chance(1, 3);
                let mut ps = Vec::new();
                let proto = gen_payload(rng, false);
                for _ in 0..k {
                    if homogeneous {
                        ps.push(match &proto {
                            Payload::Slice(_) => Payload::Slice(gen_fill(rng, false)),
                            Payload::TlvStruct(..) => {
                                Payload::TlvStruct(rng.byte(), gen_fill(rng, false))
                            }
                            Payload::TlvTuple(..) => {
                                Payload::TlvTuple(rng.byte(), gen_fill(rng, false))
                            }
                            Payload::Type(_) => Payload::Type(rng.below(12) as u8),
                            _ => gen_payload(rng, false),
                        });
                    } else {
                        ps.push(gen_payload(rng, big && ps.is_empty()));
                    }
                }
                if rng.chance(1, 3) {
                    BOp::BatchLazy(ps, rng.below(4) as u8)
                } else {
                    BOp::Batch(ps)
                }
            }
            _ => {
                let f = gen_fill(rng, big);
                // (fills with seed % 16 == 4 are themselves an encoded TLV of type 0x04)
                let k = if f.seed % 16 == 4 {
                    0x04
                } else if rng.chance(2, 3) {
                    TYPE_TABLE[rng.below(12)].1
                } else {
                    rng.byte()
                };
                BOp::WriteTlv(k, f)
            }
        };
        ops.push(op);
    }
    // place a set_length at a chosen position sometimes: before the first write,
    // between writes, last before build
    if rng.chance(1, 3) {
        let pos = match rng.below(3) {
            0 => 0,
            1 => ops.len(),
            _ => rng.range(0, ops.len()),
        };
        let l = if rng.chance(1, 5) {
            None
        } else if rng.chance(1, 3) {
            // the byte-swapped twin of the body length or of an earlier explicit length:
            // what a byte-order slip confuses with the right value
            let m = run_model(&ctor, &ops);
            let body = (m.body_len() % 65536) as u16;
            let earlier = ops.iter().find_map(|o| match o {
                BOp::SetLength(Some(x)) => Some(*x),
                _ => None,
            });
            Some(earlier.filter(|_| rng.chance(1, 2)).unwrap_or(body).swap_bytes())
        } else {
            Some(rng.below(65536) as u16)
        };
        ops.insert(pos, BOp::SetLength(l));
    }
    // steer some histories so that the body lands exactly on 65535 / 65536
    if big_mode && rng.chance(1, 2) {
        let m = run_model(&ctor, &ops);
        if m.obligatory_failure_at.is_none() && m.body_len() < 65535 {
            let target = if rng.chance(1, 2) { 65535 } else { 65536 };
            let mut gap = target - m.body_len();
            while gap > 0 {
                let take = gap.min(65535);
                ops.push(BOp::Write(Payload::Slice(Fill {
                    len: take,
                    seed: rng.next_u64(),
                })));
                gap -= take;
            }
        }
    }
    // the same address value twice: at construction and as the first payload(s)
    if rng.chance(1, 12) {
        let (fam, fill) = match &ctor {
            Ctor::WithAddresses { fam, fill, .. } if *fam >= 1 && *fam <= 3 => (*fam, fill.clone()),
            _ => (rng.range(1, 3) as u8, Fill { len: 0, seed: rng.next_u64() | 7 }),
        };
        let p = Payload::Addr(fam, fill);
        ops.insert(0, BOp::Write(p.clone()));
        if matches!(ctor, Ctor::New { .. }) || rng.chance(1, 3) {
            ops.insert(1, BOp::Write(p));
        }
    }
    sc.ctor = Some(ctor);
    sc.ops = ops;
}

// ------------------------------------------------------------ shapes ---------

/// The logical payloads of a history, in order (its "plan").
pub fn plan(ops: &[BOp]) -> Vec<Payload> {
    let mut out = Vec::new();
    for op in ops {
        match op {
            BOp::Write(p) => out.push(p.clone()),
            BOp::Batch(ps) | BOp::BatchLazy(ps, _) => out.extend(ps.iter().cloned()),
            BOp::WriteTlv(k, f) => out.push(Payload::TlvStruct(*k, f.clone())),
            _ => {}
        }
    }
    out
}

/// Re-realise a history in another concrete shape with the same logical content:
/// 0 = all single writes, 1 = random batching, 2 = TLV encoders swapped
/// (struct / tuple / write_tlv), 3 = reserve_capacity sprinkled in.
/// `set_length` operations are dropped (shape equivalence is about the body).
pub fn reshape(ops: &[BOp], shape: u8, rng: &mut Rng) -> Vec<BOp> {
    let p = plan(ops);
    match shape {
        0 => p.into_iter().map(BOp::Write).collect(),
        1 => {
            let mut out = Vec::new();
            let mut i = 0;
            while i < p.len() {
                let k = rng.range(1, 4).min(p.len() - i);
                if k == 1 && rng.chance(1, 2) {
                    out.push(BOp::Write(p[i].clone()));
                } else {
                    if rng.chance(1, 3) {
                        out.push(BOp::BatchLazy(p[i..i + k].to_vec(), rng.below(5) as u8));
                    } else {
                        out.push(BOp::Batch(p[i..i + k].to_vec()));
                    }
                }
                i += k;
            }
            if rng.chance(1, 4) {
                let at = rng.range(0, out.len());
                out.insert(at, BOp::Batch(Vec::new()));
            }
            out
        }
        2 => p
            .into_iter()
            .map(|x| match x {
                Payload::TlvStruct(k, f) | Payload::TlvTuple(k, f) => match rng.below(3) {
                    0 => BOp::Write(Payload::TlvStruct(k, f)),
                    1 => BOp::Write(Payload::TlvTuple(k, f)),
                    _ => BOp::WriteTlv(k, f),
                },
                Payload::TlvTyped(i, f) => match rng.below(3) {
                    0 => BOp::Write(Payload::TlvTyped(i, f)),
                    1 => BOp::Write(Payload::TlvStruct(TYPE_TABLE[i as usize % 12].1, f)),
                    _ => BOp::WriteTlv(TYPE_TABLE[i as usize % 12].1, f),
                },
                Payload::Type(i) => {
                    if rng.chance(1, 2) {
                        BOp::Write(Payload::Type(i))
                    } else {
                        BOp::Write(Payload::U8(TYPE_TABLE[i as usize % 12].1))
                    }
                }
                other => BOp::Write(other),
            })
            .collect(),
        _ => {
            let mut out: Vec<BOp> = Vec::new();
            for op in ops {
                if matches!(op, BOp::SetLength(_)) {
                    continue;
                }
                if rng.chance(1, 2) {
                    out.push(BOp::Reserve(*rng.pick(&[0usize, 1, 7, 64, 70000])));
                }
                out.push(op.clone());
            }
            out.push(BOp::Reserve(rng.range(0, 100)));
            out
        }
    }
}
