//! The sender side: PROXY header encoders (the real ones from `ppp`, plus a
//! hand-assembler for well-formed headers the real encoders never emit),
//! trailers (what follows the header on the connection) and junk peers.
//!
//! Nothing in here is an oracle for *acceptance*: every check decides acceptance
//! by asking the real parser, so a slip in a generator can never raise an alarm.

use crate::rng::Rng;
use ppp::v2::{self, Builder, Protocol, WriteToHeader};
use std::net::{Ipv4Addr, Ipv6Addr};

pub const V2_SIG: &[u8; 12] = b"\r\n\r\n\0\r\nQUIT\n";

#[derive(Clone, Copy, Debug, PartialEq, Eq, Hash, PartialOrd, Ord)]
pub enum El {
    // v1
    Keyword,
    Sp1,
    Proto,
    Sp2,
    SrcAddr,
    Sp3,
    DstAddr,
    Sp4,
    SrcPort,
    Sp5,
    DstPort,
    Free,
    Cr,
    Lf,
    // v2
    Sig,
    VerCmd,
    FamProto,
    Len,
    Addr,
    TlvType,
    TlvLen,
    TlvValue,
    Tail,
}

impl El {
    pub fn name(self) -> &'static str {
        match self {
            El::Keyword => "keyword",
            El::Sp1 => "sp1",
            El::Proto => "proto",
            El::Sp2 => "sp2",
            El::SrcAddr => "src_addr",
            El::Sp3 => "sp3",
            El::DstAddr => "dst_addr",
            El::Sp4 => "sp4",
            El::SrcPort => "src_port",
            El::Sp5 => "sp5",
            El::DstPort => "dst_port",
            El::Free => "free_text",
            El::Cr => "cr",
            El::Lf => "lf",
            El::Sig => "sig",
            El::VerCmd => "ver_cmd",
            El::FamProto => "fam_proto",
            El::Len => "len",
            El::Addr => "addr",
            El::TlvType => "tlv_type",
            El::TlvLen => "tlv_len",
            El::TlvValue => "tlv_value",
            El::Tail => "tail",
        }
    }
}

#[derive(Clone, Debug)]
pub struct Elem {
    pub kind: El,
    pub start: usize,
    pub end: usize,
}

/// A header as put on the wire by the sender, with the spans of its elements.
#[derive(Clone, Debug)]
pub struct Wire {
    pub bytes: Vec<u8>,
    pub version: u8,
    pub elems: Vec<Elem>,
    /// which encoder produced it
    pub encoder: &'static str,
}

impl Wire {
    pub fn elem_at(&self, pos: usize) -> Option<El> {
        self.elems
            .iter()
            .find(|e| e.start <= pos && pos < e.end)
            .map(|e| e.kind)
    }
    pub fn span(&self, kind: El) -> Option<(usize, usize)> {
        self.elems
            .iter()
            .find(|e| e.kind == kind)
            .map(|e| (e.start, e.end))
    }
    /// Positions at which a read boundary is "interesting": every element boundary.
    pub fn hot_cuts(&self) -> Vec<usize> {
        let mut v: Vec<usize> = Vec::new();
        for e in &self.elems {
            v.push(e.start);
            v.push(e.end);
            if e.end - e.start > 1 {
                v.push(e.start + 1);
                v.push(e.end - 1);
            }
        }
        v.sort_unstable();
        v.dedup();
        v
    }
}

// ---------------------------------------------------------------- v1 ---------

#[derive(Clone, Copy, Debug, PartialEq, Eq)]
pub enum V1Proto {
    Tcp4,
    Tcp6,
    Unknown,
}

#[derive(Clone, Debug)]
pub struct V1Spec {
    pub proto: V1Proto,
    pub src: String,
    pub dst: String,
    pub sport: String,
    pub dport: String,
    /// UNKNOWN only: `None` = bare `PROXY UNKNOWN`, `Some(t)` = `PROXY UNKNOWN ` + t
    pub free: Option<String>,
}

const PORTS: &[u16] = &[0, 1, 9, 10, 80, 99, 100, 443, 999, 1000, 9999, 10000, 65535];
const OCTETS: &[u8] = &[0, 1, 9, 10, 99, 100, 127, 199, 200, 249, 250, 255];

pub fn gen_port(rng: &mut Rng) -> u16 {
    match rng.below(6) {
        0..=2 => *rng.pick(PORTS),
        // systematic sweep: over a batch every 16-bit value occurs, in every port position
        3 => (rng.index % 65536) as u16,
        4 => ((rng.index / 5).wrapping_mul(40503) % 65536) as u16,
        _ => rng.below(65536) as u16,
    }
}

pub fn gen_ipv4(rng: &mut Rng) -> Ipv4Addr {
    match rng.below(8) {
        0 => Ipv4Addr::new(0, 0, 0, 0),
        1 => Ipv4Addr::new(255, 255, 255, 255),
        2 => Ipv4Addr::new(127, 0, 0, 1),
        _ => {
            let mut o = [0u8; 4];
            for x in o.iter_mut() {
                *x = if rng.chance(1, 2) {
                    *rng.pick(OCTETS)
                } else {
                    rng.byte()
                };
            }
            Ipv4Addr::from(o)
        }
    }
}

pub fn gen_ipv6_groups(rng: &mut Rng) -> [u16; 8] {
    let mut g = [0u16; 8];
    match rng.below(10) {
        0 => {}
        1 => g = [0xffff; 8],
        2 => g[7] = 1,
        3 => {
            // IPv4-mapped
            g[5] = 0xffff;
            g[6] = rng.below(65536) as u16;
            g[7] = rng.below(65536) as u16;
        }
        _ => {
            for x in g.iter_mut() {
                *x = match rng.below(6) {
                    0 | 1 => 0,
                    2 => 0xffff,
                    3 => rng.below(16) as u16,
                    4 => rng.below(256) as u16,
                    _ => rng.below(65536) as u16,
                };
            }
        }
    }
    g
}

/// One of the textual spellings RFC 4291 allows for the given groups.
pub fn ipv6_text(rng: &mut Rng, g: [u16; 8]) -> String {
    let style = rng.below(7);
    match style {
        0 => Ipv6Addr::from(g).to_string(),
        1 => g
            .iter()
            .map(|x| format!("{:x}", x))
            .collect::<Vec<_>>()
            .join(":"),
        2 => g
            .iter()
            .map(|x| format!("{:X}", x))
            .collect::<Vec<_>>()
            .join(":"),
        3 => g
            .iter()
            .map(|x| format!("{:04x}", x))
            .collect::<Vec<_>>()
            .join(":"),
        4 | 5 => {
            // compress one run of zero groups (any run, not necessarily the longest)
            let mut runs: Vec<(usize, usize)> = Vec::new();
            let mut i = 0;
            while i < 8 {
                if g[i] == 0 {
                    let s = i;
                    while i < 8 && g[i] == 0 {
                        i += 1;
                    }
                    // every sub-run of length >= 1 is a legal target for `::`
                    let a = rng.range(s, i - 1);
                    let b = rng.range(a + 1, i);
                    runs.push((a, b));
                } else {
                    i += 1;
                }
            }
            if runs.is_empty() {
                return Ipv6Addr::from(g).to_string();
            }
            let (a, b) = *rng.pick(&runs);
            let upper = style == 5;
            let f = |x: &u16| {
                if upper {
                    format!("{:X}", x)
                } else {
                    format!("{:x}", x)
                }
            };
            let left = g[..a].iter().map(f).collect::<Vec<_>>().join(":");
            let right = g[b..].iter().map(f).collect::<Vec<_>>().join(":");
            format!("{}::{}", left, right)
        }
        _ => {
            // dotted-quad tail
            let head = g[..6]
                .iter()
                .map(|x| format!("{:x}", x))
                .collect::<Vec<_>>()
                .join(":");
            format!(
                "{}:{}.{}.{}.{}",
                head,
                g[6] >> 8,
                g[6] & 0xff,
                g[7] >> 8,
                g[7] & 0xff
            )
        }
    }
}

const FREE_ALPHABET: &[u8] = b"abcXYZ019 \n\0.:\t-_/ ";
const MULTIBYTE: &[&str] = &[
    "\u{e9}", "\u{20ac}", "\u{1f600}", "\u{ff10}", "\u{85}", "\u{feff}", "\u{2028}", "\u{a0}",
];
/// Bytes one bit away from the delimiters CR, LF and SP (and a few other control bytes): the
/// values a hand-rolled scanner is most likely to confuse with a delimiter.
const NEAR_DELIMITERS: &[u8] = &[
    0x0c, 0x0f, 0x09, 0x05, 0x1d, 0x2d, 0x4d, 0x0b, 0x08, 0x0e, 0x02, 0x1a, 0x2a, 0x4a, 0x21, 0x22,
    0x24, 0x28, 0x30, 0x60, 0x00, 0x01, 0x7f, 0x1b,
];

pub fn gen_free_text(rng: &mut Rng, max: usize, ascii_only: bool) -> String {
    let len = match rng.below(8) {
        0 => 0,
        1 => 1,
        2 => max,
        3 => max.saturating_sub(1),
        4 => rng.range(0, 8.min(max)),
        _ => rng.range(0, max),
    };
    let mut s = String::new();
    // sometimes a well-structured many-field text
    if rng.chance(1, 4) {
        let fields = rng.range(1, 40);
        for i in 0..fields {
            if i > 0 {
                s.push(' ');
            }
            let l = rng.range(0, 3);
            for _ in 0..l {
                s.push(*rng.pick(b"abc019.:") as char);
            }
        }
        while s.len() > len {
            s.pop();
        }
        return s;
    }
    while s.len() < len {
        if !ascii_only && rng.chance(1, 12) {
            let m: &str = *rng.pick(MULTIBYTE);
            if s.len() + m.len() <= len {
                s.push_str(m);
                continue;
            }
        }
        if rng.chance(1, 24) {
            // words of the grammar itself inside the ignored text
            let w: &str = *rng.pick(&["PROXY", "TCP4", "TCP6", "UNKNOWN", "PRO", " PROXY", "HAPROXY"]);
            if s.len() + w.len() <= len {
                s.push_str(w);
                continue;
            }
        }
        if rng.chance(1, 10) {
            s.push(*rng.pick(NEAR_DELIMITERS) as char);
        } else {
            s.push(*rng.pick(FREE_ALPHABET) as char);
        }
    }
    // the byte right before the line's CR is where a scanner's off-by-one shows
    if !s.is_empty() && s.is_char_boundary(s.len() - 1) && rng.chance(1, 5) {
        s.pop();
        s.push(*rng.pick(NEAR_DELIMITERS) as char);
    }
    s
}

pub fn gen_v1_spec(rng: &mut Rng, ascii_only: bool) -> V1Spec {
    let mut spec = gen_v1_spec_inner(rng, ascii_only);
    // relations between independent fields: same endpoint twice, same port twice
    if spec.proto != V1Proto::Unknown {
        if rng.chance(1, 8) {
            spec.dst = spec.src.clone();
        }
        if rng.chance(1, 8) {
            spec.dport = spec.sport.clone();
        }
    }
    spec
}

fn gen_v1_spec_inner(rng: &mut Rng, ascii_only: bool) -> V1Spec {
    let proto = match rng.below(5) {
        0 | 1 => V1Proto::Tcp4,
        2 | 3 => V1Proto::Tcp6,
        _ => V1Proto::Unknown,
    };
    match proto {
        V1Proto::Tcp4 => V1Spec {
            proto,
            src: gen_ipv4(rng).to_string(),
            dst: gen_ipv4(rng).to_string(),
            sport: gen_port(rng).to_string(),
            dport: gen_port(rng).to_string(),
            free: None,
        },
        V1Proto::Tcp6 => {
            let a = gen_ipv6_groups(rng);
            let b = gen_ipv6_groups(rng);
            V1Spec {
                proto,
                src: ipv6_text(rng, a),
                dst: ipv6_text(rng, b),
                sport: gen_port(rng).to_string(),
                dport: gen_port(rng).to_string(),
                free: None,
            }
        }
        V1Proto::Unknown => {
            let free = if rng.chance(1, 4) {
                None
            } else {
                // "PROXY UNKNOWN " is 14 bytes, CRLF 2: 91 bytes of text fill the 107 limit
                let max = if rng.chance(1, 10) { 100 } else { 91 };
                Some(gen_free_text(rng, max, ascii_only))
            };
            V1Spec {
                proto,
                src: String::new(),
                dst: String::new(),
                sport: String::new(),
                dport: String::new(),
                free,
            }
        }
    }
}

/// Hand-assemble a v1 line from its fields (no validation whatsoever).
pub fn assemble_v1(spec: &V1Spec) -> Wire {
    let mut bytes: Vec<u8> = Vec::new();
    let mut elems: Vec<Elem> = Vec::new();
    let mut put = |kind: El, s: &[u8], bytes: &mut Vec<u8>| {
        let start = bytes.len();
        bytes.extend_from_slice(s);
        elems.push(Elem {
            kind,
            start,
            end: bytes.len(),
        });
    };
    put(El::Keyword, b"PROXY", &mut bytes);
    put(El::Sp1, b" ", &mut bytes);
    match spec.proto {
        V1Proto::Unknown => {
            put(El::Proto, b"UNKNOWN", &mut bytes);
            if let Some(t) = &spec.free {
                put(El::Sp2, b" ", &mut bytes);
                put(El::Free, t.as_bytes(), &mut bytes);
            }
        }
        p => {
            put(
                El::Proto,
                if p == V1Proto::Tcp4 { b"TCP4" } else { b"TCP6" },
                &mut bytes,
            );
            put(El::Sp2, b" ", &mut bytes);
            put(El::SrcAddr, spec.src.as_bytes(), &mut bytes);
            put(El::Sp3, b" ", &mut bytes);
            put(El::DstAddr, spec.dst.as_bytes(), &mut bytes);
            put(El::Sp4, b" ", &mut bytes);
            put(El::SrcPort, spec.sport.as_bytes(), &mut bytes);
            put(El::Sp5, b" ", &mut bytes);
            put(El::DstPort, spec.dport.as_bytes(), &mut bytes);
        }
    }
    put(El::Cr, b"\r", &mut bytes);
    put(El::Lf, b"\n", &mut bytes);
    Wire {
        bytes,
        version: 1,
        elems,
        encoder: "hand-v1",
    }
}

/// A v1 header. Half of the TCP lines come from the real `Display` encoder.
pub fn gen_v1(rng: &mut Rng, ascii_only: bool) -> Wire {
    if rng.chance(1, 40) {
        // TCP lines at the top of the length range: a 45-character IPv6 spelling (dotted-quad
        // tail) next to a 38/39-character one gives lines of 104..107 bytes
        let long = "ffff:ffff:ffff:ffff:ffff:ffff:255.255.255.255".to_string();
        let other = *rng.pick(&[
            "ffff:ffff:ffff:ffff:ffff:ffff:ffff:ffff",
            "ffff:ffff:ffff:ffff:ffff:ffff:ffff:fff",
            "fff:ffff:ffff:ffff:ffff:ffff:ffff:fff",
        ]);
        let (a, b) = if rng.chance(1, 2) {
            (long, other.to_string())
        } else {
            (other.to_string(), long)
        };
        let sp = *rng.pick(&["1", "10", "65535"]);
        let dp = *rng.pick(&["9", "443", "9999", "65535"]);
        return assemble_v1(&V1Spec {
            proto: V1Proto::Tcp6,
            src: a,
            dst: b,
            sport: sp.to_string(),
            dport: dp.to_string(),
            free: None,
        });
    }
    if rng.chance(1, 3) {
        // the real encoder
        let a = match rng.below(5) {
            0 | 1 => ppp::v1::Addresses::new_tcp4(
                gen_ipv4(rng),
                gen_ipv4(rng),
                gen_port(rng),
                gen_port(rng),
            ),
            2 | 3 => ppp::v1::Addresses::new_tcp6(
                Ipv6Addr::from(gen_ipv6_groups(rng)),
                Ipv6Addr::from(gen_ipv6_groups(rng)),
                gen_port(rng),
                gen_port(rng),
            ),
            _ => ppp::v1::Addresses::Unknown,
        };
        let text = a.to_string();
        if let Some(mut w) = tokenize_v1(text.as_bytes()) {
            w.encoder = "real-v1-display";
            return w;
        }
    }
    let spec = gen_v1_spec(rng, ascii_only);
    assemble_v1(&spec)
}

/// Recover element spans from a line produced by the real encoder.
pub fn tokenize_v1(line: &[u8]) -> Option<Wire> {
    let text = std::str::from_utf8(line).ok()?;
    let body = text.strip_suffix("\r\n")?;
    let parts: Vec<&str> = body.split(' ').collect();
    let spec = match parts.as_slice() {
        ["PROXY", "UNKNOWN"] => V1Spec {
            proto: V1Proto::Unknown,
            src: String::new(),
            dst: String::new(),
            sport: String::new(),
            dport: String::new(),
            free: None,
        },
        ["PROXY", p @ ("TCP4" | "TCP6"), a, b, c, d] => V1Spec {
            proto: if *p == "TCP4" {
                V1Proto::Tcp4
            } else {
                V1Proto::Tcp6
            },
            src: a.to_string(),
            dst: b.to_string(),
            sport: c.to_string(),
            dport: d.to_string(),
            free: None,
        },
        _ => return None,
    };
    let w = assemble_v1(&spec);
    if w.bytes == line {
        Some(w)
    } else {
        None
    }
}

// ---------------------------------------------------------------- v2 ---------

pub const FAMILY_SIZE: [usize; 4] = [0, 12, 36, 216];

#[derive(Clone, Debug)]
pub struct V2Spec {
    pub cmd: u8,
    pub fam: u8,
    pub proto: u8,
    /// address block (exactly the family size; any length for family 0)
    pub addr: Vec<u8>,
    pub tlvs: Vec<(u8, Vec<u8>)>,
    /// raw bytes appended after the TLVs (normally empty)
    pub tail: Vec<u8>,
    /// explicit length field, if it is to disagree with the payload
    pub declared: Option<u16>,
}

impl V2Spec {
    pub fn payload_len(&self) -> usize {
        self.addr.len()
            + self.tlvs.iter().map(|(_, v)| 3 + v.len()).sum::<usize>()
            + self.tail.len()
    }
}

const TLV_TYPES: &[u8] = &[
    0x01, 0x02, 0x03, 0x04, 0x05, 0x20, 0x21, 0x22, 0x23, 0x24, 0x25, 0x30, 0x00, 0xE0, 0xFF,
];

pub fn gen_tlv_value_len(rng: &mut Rng, budget: usize) -> usize {
    let l = match rng.below(12) {
        0 | 1 => 0,
        2 | 3 => 1,
        4 => 2,
        5 => 255,
        6 => 256,
        7 => 257,
        8 => rng.range(0, 4096),
        9 => budget,
        _ => rng.range(0, 40),
    };
    l.min(budget)
}

pub fn gen_v2_spec(rng: &mut Rng, big_ok: bool) -> V2Spec {
    let cmd = rng.below(2) as u8;
    let fam = rng.below(4) as u8;
    let proto = rng.below(3) as u8;
    let fsize = FAMILY_SIZE[fam as usize];
    let mut addr = match rng.below(4) {
        0 => vec![0u8; fsize],
        1 => vec![0xffu8; fsize],
        _ => rng.bytes(fsize),
    };
    if fam == 2 && rng.chance(1, 4) {
        // IPv4-mapped IPv6 addresses (::ffff:a.b.c.d), for one or both ends
        let both = rng.chance(2, 3);
        for (k, base) in [(0usize, 0usize), (1, 16)] {
            if both || k == rng.below(2) {
                for b in addr[base..base + 10].iter_mut() {
                    *b = 0;
                }
                addr[base + 10] = 0xff;
                addr[base + 11] = 0xff;
            }
        }
    }
    if fam != 0 && rng.chance(1, 8) {
        // source and destination identical
        let half = match fam {
            1 => 4,
            2 => 16,
            _ => 108,
        };
        let (a, b) = addr.split_at_mut(half);
        b[..half].copy_from_slice(a);
        if fam != 3 {
            let p = 2 * half;
            addr[p + 2] = addr[p];
            addr[p + 3] = addr[p + 1];
        }
    }
    if fam == 3 && rng.chance(1, 2) {
        // path-looking unix addresses
        addr = vec![0u8; 216];
        let p = b"/var/run/proxy.sock";
        addr[..p.len()].copy_from_slice(p);
        addr[108..108 + p.len()].copy_from_slice(p);
    }
    let mut tlvs: Vec<(u8, Vec<u8>)> = Vec::new();
    let mut tail = Vec::new();
    // total payload target
    let target = if big_ok {
        match rng.below(24) {
            // systematic sweep of the total payload length across a batch
            6 | 7 => (rng.index % 65536) as usize,
            0 => 65535,
            1 => 65534,
            2 => rng.range(4096, 65535),
            3 => 4096,
            4 => 255,
            5 => 256,
            _ => fsize + rng.range(0, 120),
        }
    } else {
        fsize + rng.range(0, 120)
    }
    .max(fsize);
    let mut remaining = target - fsize;
    if fam == 0 && rng.chance(1, 2) {
        // unspecified family: the whole payload is opaque
        addr = rng.bytes(remaining);
        if rng.chance(1, 4) {
            embed_interesting(rng, &mut addr);
        }
        remaining = 0;
    }
    let n_tlvs = match rng.below(6) {
        0 => 0,
        1 => 1,
        2 => 2,
        _ => rng.range(0, 40),
    };
    for _ in 0..n_tlvs {
        if remaining < 3 {
            break;
        }
        if rng.chance(1, 4) {
            // a TLV as deployed proxies really send it
            let (t, v) = realistic_tlv(rng);
            if v.len() + 3 <= remaining {
                remaining -= 3 + v.len();
                tlvs.push((t, v));
                continue;
            }
        }
        let l = gen_tlv_value_len(rng, remaining - 3);
        let t = if rng.chance(1, 16) {
            // type byte equal to the low length byte
            (l & 0xff) as u8
        } else if rng.chance(3, 4) {
            *rng.pick(TLV_TYPES)
        } else {
            rng.byte()
        };
        let mut v = if rng.chance(1, 4) {
            vec![rng.byte(); l]
        } else {
            rng.bytes(l)
        };
        if rng.chance(1, 8) {
            embed_interesting(rng, &mut v);
        }
        remaining -= 3 + l;
        tlvs.push((t, v));
    }
    // occasionally eat the remainder exactly with one last TLV, else leave it
    if remaining >= 3 && rng.chance(1, 2) {
        tlvs.push((*rng.pick(TLV_TYPES), rng.bytes(remaining - 3)));
    } else if remaining > 0 && rng.chance(1, 6) {
        // torn tail: 1..remaining raw bytes that are not a whole TLV
        let k = rng.range(1, remaining.min(6));
        tail = rng.bytes(k);
    }
    V2Spec {
        cmd,
        fam,
        proto,
        addr,
        tlvs,
        tail,
        declared: None,
    }
}

/// TLVs with the types and value shapes that HAProxy, AWS, Azure and GCP front ends emit.
pub fn realistic_tlv(rng: &mut Rng) -> (u8, Vec<u8>) {
    match rng.below(15) {
        12 => {
            // an internationalised authority / common name: long valid UTF-8 whose multi-byte
            // characters fall on every offset (a prefix of 0..3 ASCII bytes shifts them)
            let mut s = String::new();
            for _ in 0..rng.below(4) {
                s.push('x');
            }
            let n = rng.range(20, 140);
            while s.len() < n {
                match rng.below(5) {
                    0 => s.push_str("b\u{fc}cher"),
                    1 => s.push('\u{20ac}'),
                    2 => s.push('\u{1f600}'),
                    3 => s.push_str(".example"),
                    _ => s.push(*rng.pick(b"abcdefgh-.") as char),
                }
            }
            (*rng.pick(&[0x02u8, 0x22, 0x01]), s.into_bytes())
        }
        13 | 14 => {
            // PP2_TYPE_SSL nested in itself, `depth` levels (8 bytes per level)
            let depth = match rng.below(4) {
                0 => rng.range(1, 4),
                1 => rng.range(5, 60),
                2 => rng.range(100, 1200),
                _ => rng.range(1500, 8000),
            };
            (0x20, nested_ssl(depth))
        }
        0 => (0x01, b"h2".to_vec()),
        1 => (0x01, b"http/1.1".to_vec()),
        2 => (0x02, b"example.com".to_vec()),
        3 => (0x03, rng.bytes(4)),
        4 => {
            let n = rng.range(0, 12);
            (0x04, vec![0u8; n])
        }
        5 => (0x05, rng.bytes(16)),
        6 => {
            // PP2_TYPE_SSL: client flags, verify, nested sub-TLVs
            let mut v = vec![0x01, 0, 0, 0, 0];
            v.extend(tlv_to_bytes(0x21, b"TLSv1.3"));
            v.extend(tlv_to_bytes(0x22, b"client.example"));
            (0x20, v)
        }
        7 => match rng.below(3) {
            // (senders written in C tend to include the terminating NUL)
            0 => (0x30, b"blue\0".to_vec()),
            1 => (0x02, b"example.com\0".to_vec()),
            _ => (0x30, b"netns-blue".to_vec()),
        },
        8 => {
            // PP2_TYPE_AWS, sub-type 1 = VPC endpoint id
            let mut v = vec![0x01];
            v.extend_from_slice(b"vpce-08d2bf15fac5001c9");
            (0xEA, v)
        }
        9 => {
            // PP2_TYPE_AZURE, sub-type 1 = private endpoint link id (u32 LE); the type is in the
            // application range, so other shapes are legal too
            let mut v = vec![0x01];
            let n = *rng.pick(&[4usize, 4, 0, 1, 3, 8]);
            v.extend(rng.bytes(n));
            (0xEE, v)
        }
        10 => (0xE0, rng.bytes(8)),
        _ => (0x04, Vec::new()),
    }
}

/// Value of an SSL TLV that contains an SSL TLV that contains ... (`depth` levels).
pub fn nested_ssl(depth: usize) -> Vec<u8> {
    // level k (k = depth .. 1) is: client flags, verify, then a sub-TLV 0x20 whose value is
    // level k-1; level 0 is just client flags + verify. Built outermost first, linearly.
    let depth = depth.min((65535 - 5) / 8);
    let mut v: Vec<u8> = Vec::with_capacity(5 + 8 * depth);
    for level in (1..=depth).rev() {
        let inner = 5 + 8 * (level - 1);
        v.extend_from_slice(&[0x01, 0, 0, 0, 0, 0x20]);
        v.extend_from_slice(&(inner as u16).to_be_bytes());
    }
    v.extend_from_slice(&[0x01, 0, 0, 0, 0]);
    v
}

/// Overwrite the start (or the end) of a value with bytes that mean something elsewhere in the
/// protocol: a v2 signature, the start of a text header, a line break, a run of NULs.
pub fn embed_interesting(rng: &mut Rng, v: &mut Vec<u8>) {
    let pieces: [&[u8]; 7] = [
        V2_SIG,
        b"\r\n\r\n\0\r\nQUIT\n\x21\x11\x00\x0c",
        b"\nPROXY ",
        b"\r\nPROXY TCP4 1.2.3.4 5.6.7.8 1 2\r\n",
        b"PROXY UNKNOWN\r\n",
        b"\0\0\0\0",
        b"\r\n",
    ];
    let p: &[u8] = *rng.pick(&pieces);
    if p.len() > v.len() {
        return;
    }
    let at = match rng.below(3) {
        0 => 0,
        1 => v.len() - p.len(),
        _ => rng.range(0, v.len() - p.len()),
    };
    v[at..at + p.len()].copy_from_slice(p);
}

/// CRC-32C (Castagnoli), bitwise; as HAProxy computes it for PP2_TYPE_CRC32C.
pub fn crc32c(data: &[u8]) -> u32 {
    let mut crc: u32 = !0;
    for b in data {
        crc ^= *b as u32;
        for _ in 0..8 {
            crc = if crc & 1 != 0 {
                (crc >> 1) ^ 0x82F6_3B78
            } else {
                crc >> 1
            };
        }
    }
    !crc
}

/// Fill in the value of the first 4-byte CRC32C TLV (type 3) with the checksum of the whole
/// header computed with that field zeroed, as a conforming sender does.
pub fn fix_crc32c(header: &mut [u8], elems: &[Elem]) -> bool {
    let mut i = 0;
    while i + 2 < elems.len() {
        if elems[i].kind == El::TlvType
            && header[elems[i].start] == 0x03
            && elems[i + 1].kind == El::TlvLen
            && header[elems[i + 1].start..elems[i + 1].end] == [0, 4]
            && elems[i + 2].kind == El::TlvValue
        {
            let (s, e) = (elems[i + 2].start, elems[i + 2].end);
            for b in header[s..e].iter_mut() {
                *b = 0;
            }
            let c = crc32c(header);
            header[s..e].copy_from_slice(&c.to_be_bytes());
            return true;
        }
        i += 1;
    }
    false
}

pub fn assemble_v2(spec: &V2Spec) -> Wire {
    let mut bytes: Vec<u8> = Vec::with_capacity(16 + spec.payload_len());
    let mut elems = Vec::new();
    bytes.extend_from_slice(V2_SIG);
    elems.push(Elem {
        kind: El::Sig,
        start: 0,
        end: 12,
    });
    bytes.push(0x20 | spec.cmd);
    elems.push(Elem {
        kind: El::VerCmd,
        start: 12,
        end: 13,
    });
    bytes.push((spec.fam << 4) | spec.proto);
    elems.push(Elem {
        kind: El::FamProto,
        start: 13,
        end: 14,
    });
    let len = spec
        .declared
        .unwrap_or_else(|| spec.payload_len().min(65535) as u16);
    bytes.extend_from_slice(&len.to_be_bytes());
    elems.push(Elem {
        kind: El::Len,
        start: 14,
        end: 16,
    });
    let s = bytes.len();
    bytes.extend_from_slice(&spec.addr);
    if !spec.addr.is_empty() {
        elems.push(Elem {
            kind: El::Addr,
            start: s,
            end: bytes.len(),
        });
    }
    for (t, v) in &spec.tlvs {
        let s = bytes.len();
        bytes.push(*t);
        elems.push(Elem {
            kind: El::TlvType,
            start: s,
            end: s + 1,
        });
        bytes.extend_from_slice(&(v.len() as u16).to_be_bytes());
        elems.push(Elem {
            kind: El::TlvLen,
            start: s + 1,
            end: s + 3,
        });
        bytes.extend_from_slice(v);
        if !v.is_empty() {
            elems.push(Elem {
                kind: El::TlvValue,
                start: s + 3,
                end: bytes.len(),
            });
        }
    }
    if !spec.tail.is_empty() {
        let s = bytes.len();
        bytes.extend_from_slice(&spec.tail);
        elems.push(Elem {
            kind: El::Tail,
            start: s,
            end: bytes.len(),
        });
    }
    Wire {
        bytes,
        version: 2,
        elems,
        encoder: "hand-v2",
    }
}

fn typed_addresses(spec: &V2Spec) -> Option<v2::Addresses> {
    let a = &spec.addr;
    match spec.fam {
        0 if a.is_empty() => Some(v2::Addresses::Unspecified),
        1 if a.len() == 12 => Some(v2::Addresses::IPv4(v2::IPv4::new(
            [a[0], a[1], a[2], a[3]],
            [a[4], a[5], a[6], a[7]],
            u16::from_be_bytes([a[8], a[9]]),
            u16::from_be_bytes([a[10], a[11]]),
        ))),
        2 if a.len() == 36 => {
            let mut s = [0u8; 16];
            let mut d = [0u8; 16];
            s.copy_from_slice(&a[..16]);
            d.copy_from_slice(&a[16..32]);
            Some(v2::Addresses::IPv6(v2::IPv6::new(
                s,
                d,
                u16::from_be_bytes([a[32], a[33]]),
                u16::from_be_bytes([a[34], a[35]]),
            )))
        }
        3 if a.len() == 216 => {
            let mut s = [0u8; 108];
            let mut d = [0u8; 108];
            s.copy_from_slice(&a[..108]);
            d.copy_from_slice(&a[108..]);
            Some(v2::Addresses::Unix(v2::Unix::new(s, d)))
        }
        _ => None,
    }
}

/// Encode the same spec with the real `Builder` (which is what a sender using
/// this crate would run). Returns `None` if the builder refuses (too long).
pub fn build_v2_real(rng: &mut Rng, spec: &V2Spec) -> Option<Vec<u8>> {
    let vc = 0x20 | spec.cmd;
    let protocol = match spec.proto {
        0 => Protocol::Unspecified,
        1 => Protocol::Stream,
        _ => Protocol::Datagram,
    };
    let typed = typed_addresses(spec);
    let mut b = match typed {
        Some(a) if rng.chance(3, 4) => Builder::with_addresses(vc, protocol, a),
        _ => {
            let b = Builder::new(vc, (spec.fam << 4) | spec.proto);
            let b = if let Some(d) = spec.declared {
                b.set_length(d)
            } else {
                b
            };
            b.write_payload(spec.addr.as_slice()).ok()?
        }
    };
    if let Some(d) = spec.declared {
        // an explicit length has to be given before the first write to take effect
        // on every tree; with_addresses has not written anything yet.
        b = b.set_length(d);
    }
    for (t, v) in &spec.tlvs {
        b = match rng.below(3) {
            0 => b.write_tlv(*t, v.as_slice()).ok()?,
            1 => b.write_payload((*t, v.as_slice())).ok()?,
            _ => b
                .write_payload(v2::TypeLengthValue::new(*t, v.as_slice()))
                .ok()?,
        };
    }
    if !spec.tail.is_empty() {
        b = b.write_payload(spec.tail.as_slice()).ok()?;
    }
    b.build().ok()
}

/// A v2 header; about half are produced by the real `Builder`.
pub fn gen_v2(rng: &mut Rng, big_ok: bool) -> (Wire, V2Spec) {
    let mut spec = gen_v2_spec(rng, big_ok);
    let mut w = assemble_v2(&spec);
    if spec.declared.is_none() && rng.chance(2, 3) {
        // a conforming sender's checksum (when the header carries a CRC32C TLV)
        let elems = w.elems.clone();
        if fix_crc32c(&mut w.bytes, &elems) {
            // keep the spec in step so that the real builder produces the same bytes
            let mut off = 16 + spec.addr.len();
            for (t, v) in spec.tlvs.iter_mut() {
                if *t == 0x03 && v.len() == 4 {
                    v.copy_from_slice(&w.bytes[off + 3..off + 7]);
                    break;
                }
                off += 3 + v.len();
            }
        }
    }
    if rng.chance(1, 2) {
        if let Some(real) = build_v2_real(rng, &spec) {
            // spans come from the hand assembler; they are only valid if both agree.
            // (Whether they agree is C07/C10 territory and is not judged here: when
            // they differ the real bytes are sent and the spans are dropped.)
            if real == w.bytes {
                w.encoder = "real-v2-builder";
            } else {
                let addr_end = 16 + spec.addr.len().min(real.len().saturating_sub(16));
                w = Wire {
                    elems: vec![
                        Elem {
                            kind: El::Sig,
                            start: 0,
                            end: 12.min(real.len()),
                        },
                        Elem {
                            kind: El::Tail,
                            start: addr_end.min(real.len()),
                            end: real.len(),
                        },
                    ],
                    bytes: real,
                    version: 2,
                    encoder: "real-v2-builder-divergent",
                };
            }
        }
    }
    (w, spec)
}

pub fn tlv_to_bytes(kind: u8, value: &[u8]) -> Vec<u8> {
    // real encoder when it accepts, hand encoder otherwise
    match (kind, value).to_bytes() {
        Ok(b) => b,
        Err(_) => {
            let mut v = vec![kind];
            v.extend_from_slice(&(value.len() as u16).to_be_bytes());
            v.extend_from_slice(value);
            v
        }
    }
}

// ------------------------------------------------------------ trailers -------

/// What follows the header on the connection.
pub fn gen_trailer(rng: &mut Rng, header: &Wire) -> (Vec<u8>, &'static str) {
    match rng.below(14) {
        0 => (Vec::new(), "empty"),
        1 => (
            b"GET / HTTP/1.1\r\nHost: example\r\n\r\n".to_vec(),
            "http",
        ),
        2 => (
            vec![
                0x16, 0x03, 0x01, 0x02, 0x00, 0x01, 0x00, 0x01, 0xfc, 0x03, 0x03,
            ],
            "tls",
        ),
        3 => {
            let w = gen_v1(rng, true);
            (w.bytes, "second_v1")
        }
        4 => {
            let (w, _) = gen_v2(rng, false);
            (w.bytes, "second_v2")
        }
        5 => {
            let n = rng.range(1, 6);
            let mut v = Vec::new();
            for _ in 0..n {
                v.push(*rng.pick(b"\r\n\0"));
            }
            (v, "crlfnul")
        }
        6 => (b"\n".to_vec(), "lf"),
        7 => (b"\r\n".to_vec(), "crlf"),
        8 => {
            // digits that would extend the last port / a length if wrongly absorbed
            let n = rng.range(1, 4);
            let mut v = Vec::new();
            for _ in 0..n {
                v.push(*rng.pick(b"0123456789"));
            }
            (v, "digits")
        }
        9 => {
            // another TLV, as if the section went on
            let l = rng.range(0, 5);
            (tlv_to_bytes(0x04, &rng.bytes(l)), "tlv")
        }
        10 => {
            // the header's own tail repeated
            let n = header.bytes.len();
            let k = rng.range(1, n.min(20));
            (header.bytes[n - k..].to_vec(), "own_tail")
        }
        11 => match rng.below(3) {
            0 => {
                let n = rng.range(1, 40);
                (vec![0u8; n], "nul_run")
            }
            1 => {
                let n = rng.range(100, 300);
                let mut v = Vec::with_capacity(n);
                for _ in 0..n {
                    v.push(*rng.pick(b"abcdefghij 0123456789\n"));
                }
                (v, "long_payload")
            }
            _ => ("\u{20ac}\u{e9}trailer".as_bytes().to_vec(), "multibyte"),
        },
        12 => (vec![0xff, 0xfe, 0x80, 0xc3], "invalid_utf8"),
        _ => {
            let n = rng.range(1, 64);
            (rng.bytes(n), "random")
        }
    }
}

/// Adversarial trailers derived on the spot for an accepted header (C04 clause 3).
pub fn adversarial_trailers(rng: &mut Rng, header: &[u8]) -> Vec<Vec<u8>> {
    let mut out: Vec<Vec<u8>> = vec![
        b"\n".to_vec(),
        b"\r\n".to_vec(),
        b"\r".to_vec(),
        b" ".to_vec(),
        b"0".to_vec(),
        vec![0u8],
        b"x".to_vec(),
        header.to_vec(),
        vec![0x04, 0x00, 0x00],
        vec![0xff],
        "\u{20ac}".as_bytes().to_vec(),
        "\u{20ac}".repeat(45).into_bytes(),
        "\u{e9}".repeat(70).into_bytes(),
        "x\u{1f600}".repeat(30).into_bytes(),
    ];
    for _ in 0..3 {
        let n = rng.range(1, 24);
        out.push(rng.bytes(n));
    }
    out
}

// ------------------------------------------------------------ junk peers -----

/// A peer that is not speaking PROXY (correctly) at all.
pub fn gen_junk(rng: &mut Rng) -> (Vec<u8>, &'static str) {
    match rng.below(11) {
        10 => {
            // an unterminated, so-far-valid text header followed by NUL bytes (a zero-filled
            // read buffer handed over whole)
            let w = gen_v1(rng, true);
            let k = rng.range(0, w.bytes.len());
            let mut v = w.bytes[..k].to_vec();
            let n = rng.range(1, 8);
            v.extend(std::iter::repeat(0u8).take(n));
            (v, "text_prefix_then_nuls")
        }
        9 => {
            // long valid UTF-8 text, dense in multi-byte characters, 90..320 bytes, with an
            // optional well-formed line in front and an optional late CR
            let mut s = String::new();
            match rng.below(4) {
                0 => s.push_str("PROXY UNKNOWN "),
                1 => s.push_str("PROXY TCP4 1.2.3.4 5.6.7.8 80 443\r\n"),
                2 => s.push_str("PROXY UNKNOWN\r\n"),
                _ => {}
            }
            let target = rng.range(90, 320);
            let cr_at = if rng.chance(1, 2) { rng.range(80, 140) } else { usize::MAX };
            while s.len() < target {
                if s.len() >= cr_at && !s.as_bytes()[s.len().saturating_sub(4)..].contains(&b'\r') && rng.chance(1, 3) {
                    s.push('\r');
                    if rng.chance(1, 2) {
                        s.push('\n');
                    }
                } else if rng.chance(1, 2) {
                    let m: &str = *rng.pick(MULTIBYTE);
                    s.push_str(m);
                } else {
                    s.push(*rng.pick(b"ab1 .:") as char);
                }
            }
            (s.into_bytes(), "long_utf8_text")
        }
        0 => {
            let n = rng.range(0, 300);
            (rng.bytes(n), "random_bytes")
        }
        1 => {
            // text after "PROXY "
            let mut v = b"PROXY ".to_vec();
            let n = rng.range(0, 130);
            for _ in 0..n {
                v.push(*rng.pick(b"TCP46UNKOW 0123456789.:\r\nabcf"));
            }
            (v, "text_after_proxy")
        }
        2 => {
            // random bytes after a valid v2 signature
            let mut v = V2_SIG.to_vec();
            let n = rng.range(0, 300);
            v.extend(rng.bytes(n));
            (v, "bytes_after_sig")
        }
        3 => {
            // a prefix of the signature, then garbage
            let k = rng.range(0, 12);
            let mut v = V2_SIG[..k].to_vec();
            let n = rng.range(0, 20);
            v.extend(rng.bytes(n));
            (v, "sig_prefix_then_bytes")
        }
        4 => {
            // CR-free filler of a length around the 107 limit
            let n = *rng.pick(&[105usize, 106, 107, 108, 109, 200]);
            let c = *rng.pick(b"Pa \n\0");
            let mut v = vec![c; n];
            if rng.chance(1, 2) {
                v[..6].copy_from_slice(b"PROXY ");
            }
            (v, "cr_free_filler")
        }
        5 => {
            // plausible v2 fixed part with arbitrary control bytes and length
            let mut v = V2_SIG.to_vec();
            v.push(rng.byte());
            v.push(rng.byte());
            let l = match rng.below(4) {
                0 => 0,
                1 => rng.below(300) as u16,
                2 => 65535,
                _ => rng.below(65536) as u16,
            };
            v.extend_from_slice(&l.to_be_bytes());
            let n = rng.range(0, 300);
            v.extend(rng.bytes(n));
            (v, "v2_random_control")
        }
        6 => {
            // tokens of the text grammar in random order
            let toks: &[&[u8]] = &[
                b"PROXY", b"TCP4", b"TCP6", b"UNKNOWN", b" ", b" ", b" ", b"\r", b"\n", b"\r\n",
                b"1.2.3.4", b"::1", b"80", b"65535", b"0", b"P", b"T", b"U", b"PROX", b"TCP",
                b"UNK", b"+1", b"-1", b"08",
            ];
            let n = rng.range(1, 14);
            let mut v = Vec::new();
            for _ in 0..n {
                let t: &[u8] = *rng.pick(toks);
                v.extend_from_slice(t);
            }
            (v, "token_soup")
        }
        7 => (b"GET / HTTP/1.1\r\n\r\n".to_vec(), "http_only"),
        _ => {
            // valid text with multi-byte characters sprinkled in
            let n = rng.range(1, 60);
            let mut s = String::from("PROXY UNKNOWN");
            for _ in 0..n {
                if rng.chance(1, 5) {
                    let m: &str = *rng.pick(MULTIBYTE);
                    s.push_str(m);
                } else if rng.chance(1, 8) {
                    s.push('\r');
                } else {
                    s.push(*rng.pick(FREE_ALPHABET) as char);
                }
            }
            (s.into_bytes(), "utf8_text")
        }
    }
}

pub fn multibyte_samples() -> &'static [&'static str] {
    MULTIBYTE
}
