#!/bin/sh
# Determinism and replay self-tests of the simulator itself (not a property check).
#   ./selftest.sh [runs]     default 2000 runs per check
# 1. per-run event-log digests must be identical across two fresh processes and
#    across worker counts 1, 5 and 16;
# 2. every scenario must survive scenario -> JSON -> scenario with an identical
#    event-log digest (what a replay file relies on).
# exit 0 = deterministic, 2 = harness error
ROOT="$(cd "$(dirname "$0")" && pwd)"
RUNS="${1:-2000}"
cd "$ROOT/sim" || exit 2
export CARGO_NET_OFFLINE=true
cargo build --release --offline >/dev/null 2>&1 || { echo "selftest: build failed" >&2; exit 2; }
T="$ROOT/sim/target/selftest"
rm -rf "$T"; mkdir -p "$T"
rc=0
for id in C03 C04 C05 C06 C09 C10 C11 C12 C16 C17 C18 C20; do
    n=$RUNS
    [ "$id" = C12 ] && n=$((RUNS / 20 + 30))
    for w in 1 5 16; do
        for p in a b; do
            ./target/release/pppsim digest $id $n $w "$T/$id.$w.$p" || rc=2
        done
    done
    ref="$T/$id.1.a"
    for f in "$T"/$id.*; do
        cmp -s "$ref" "$f" || { echo "selftest: $id: $f differs from $ref" >&2; rc=2; }
    done
    m=$((n / 10 + 10))
    ./target/release/pppsim roundtrip $id $m >/dev/null || { echo "selftest: $id: replay roundtrip failed" >&2; rc=2; }
    echo "selftest: $id: $n runs x {1,5,16} workers x 2 processes identical; $m scenarios replay-roundtripped"
done
rm -rf "$T"
exit $rc
