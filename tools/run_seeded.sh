#!/bin/sh
# tools/run_seeded.sh [tier] — run every check against every seeded change (applied to
# /repo one at a time and undone straight afterwards); writes seeded/RESULTS.tsv
ROOT="$(cd "$(dirname "$0")/.." && pwd)"
TIER="${1:-quick}"
OUT="$ROOT/seeded/RESULTS.tsv"
: > "$OUT.tmp"
for d in "$ROOT"/seeded/[CRSTUVWXYZ]*_[a-z] "$ROOT"/seeded/own/m*; do
    [ -f "$d/patch.diff" ] || continue
    name=$(echo "$d" | sed "s|$ROOT/seeded/||")
    res=$("$ROOT/tools/try_mutant.sh" "$d/patch.diff" "$TIER" 2>&1)
    caught=$(echo "$res" | grep "^CAUGHT_BY:" | sed 's/CAUGHT_BY://')
    note=$(echo "$res" | grep -E "^try_mutant:" | head -1)
    err=$(echo "$res" | grep -E "rc=2" | awk '{print $1}' | tr '\n' ' ')
    printf "%s\t%s\t%s\t%s\n" "$name" "${caught:- }" "${err:- }" "$note" >> "$OUT.tmp"
    echo "$name: caught by:${caught} ${err:+harness-error:$err} $note"
done
mv "$OUT.tmp" "$OUT"
