#!/usr/bin/env python3
"""Regenerate the table of DESIGN.md §13 from seeded/RESULTS.tsv and the meta.json files."""
import json, os, re, sys
root = os.path.dirname(os.path.dirname(os.path.abspath(__file__)))
rows = {}
for line in open(os.path.join(root, "seeded", "RESULTS.tsv")):
    parts = line.rstrip("\n").split("\t")
    while len(parts) < 4:
        parts.append("")
    rows[parts[0]] = parts[1:]
out = []
out.append("| seeded change | breaks | needs, in order to manifest | caught by (quick tier) |")
out.append("|---|---|---|---|")
def key(n):
    return (n.startswith("own/"), n[0] in "RSTUVWXYZ", n)
for name in sorted(rows, key=key):
    caught, err, note = rows[name]
    meta_path = os.path.join(root, "seeded", name, "meta.json")
    meta = json.load(open(meta_path)) if os.path.exists(meta_path) else {}
    breaks = meta.get("breaks_property", "")
    needs = meta.get("needs_to_manifest", meta.get("note", ""))
    if name.startswith("own/"):
        m = re.match(r"(C\d\d(?:/C\d\d)*)", needs)
        breaks = m.group(1) if m else ""
    c = caught.strip() or "—"
    if "does not pass the 73 unit tests" in note:
        c = "(killed by the repository's own unit tests; proves nothing)"
    if err.strip():
        c += " [exit 2: " + err.strip() + "]"
    needs = needs.replace("|", "\\|")
    out.append(f"| `{name}` | {breaks} | {needs} | {c} |")
text = "\n".join(out)
design = os.path.join(root, "DESIGN.md")
s = open(design).read()
b, e = "<!-- SEEDED-TABLE-BEGIN -->", "<!-- SEEDED-TABLE-END -->"
if b in s and e in s:
    s = s[: s.index(b) + len(b)] + "\n" + text + "\n" + s[s.index(e):]
    open(design, "w").write(s)
    print("DESIGN.md table updated:", len(rows), "rows")
else:
    print(text)
