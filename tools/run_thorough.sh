#!/bin/sh
# tools/run_thorough.sh [ids...] — the thorough tier of every check (or of the given ones), one
# after the other, against /repo as it is; each rewrites its evidence/<ID>.json.
ROOT="$(cd "$(dirname "$0")/.." && pwd)"
IDS="$*"; [ -n "$IDS" ] || IDS="C04 C05 C06 C09 C10 C11 C12 C16 C17 C18 C20 C03"
rc=0
for id in $IDS; do
    s=$(date +%s)
    out=$("$ROOT/check" "$id" thorough 2>&1); r=$?
    e=$(date +%s)
    echo "$id rc=$r $((e - s))s $(echo "$out" | grep -E '^pppsim: [0-9]+ runs' | tail -1)"
    [ $r -ne 0 ] && { echo "$out" | tail -20; rc=1; }
done
exit $rc
