#!/usr/bin/env python3
"""tools/keep_seeded.py <worktree> <letter> <name> <property> <round-note> <needs...>
Copies a confirmed seeded change (out/<letter>.diff, _demo.rs, _notes.md) of a sub-agent's scratch
worktree to seeded/<name>/ and writes its meta.json."""
import json, os, shutil, sys
wt, letter, name, prop, source, first_pass = sys.argv[1:7]
needs = " ".join(sys.argv[7:])
root = os.path.dirname(os.path.dirname(os.path.abspath(__file__)))
d = os.path.join(root, "seeded", name)
os.makedirs(d, exist_ok=True)
shutil.copy(os.path.join(wt, "out", letter + ".diff"), os.path.join(d, "patch.diff"))
shutil.copy(os.path.join(wt, "out", letter + "_demo.rs"), os.path.join(d, "demo.rs"))
n = os.path.join(wt, "out", letter + "_notes.md")
if os.path.exists(n):
    shutil.copy(n, os.path.join(d, "notes.md"))
meta = {
    "name": name,
    "breaks_property": prop,
    "source": source,
    "needs_to_manifest": needs,
    "confirmed": {
        "how": "tools/verify_seeded.sh: patch applies, 73 unit tests pass with it, demo passes without and fails with it",
        "result": "confirmed",
    },
    "checks_run": "tools/try_mutant.sh patch.diff quick (all twelve checks)",
    "first_pass": first_pass,
    "files": ["patch.diff", "demo.rs", "notes.md"],
}
json.dump(meta, open(os.path.join(d, "meta.json"), "w"), indent=1)
print("kept", name)
