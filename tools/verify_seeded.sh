#!/bin/sh
# tools/verify_seeded.sh <worktree> <a|b>
# Confirms, in a scratch worktree, that the seeded change applies, passes the 73 unit
# tests, and that its demonstration passes without it and fails with it.
W="$1"; X="$2"
export CARGO_TARGET_DIR="$W/target"
cd "$W" || exit 2
git checkout -q -- . ; rm -rf tests
git apply --check "out/$X.diff" || { echo "RESULT patch_does_not_apply"; exit 1; }
mkdir -p tests; cp "out/${X}_demo.rs" tests/seeded_demo.rs
clean=$(cargo test --offline --test seeded_demo 2>&1 | grep -E "^test result" | head -1)
git apply "out/$X.diff"
unit=$(cargo test --offline --lib 2>&1 | grep -E "^test result" | head -1)
with=$(cargo test --offline --test seeded_demo 2>&1 | grep -E "^test result" | head -1)
git checkout -q -- . ; rm -rf tests
echo "demo clean : $clean"
echo "unit tests : $unit"
echo "demo patched: $with"
ok=1
case "$clean" in *" 0 failed"*) ;; *) ok=0;; esac
case "$unit" in *"73 passed; 0 failed"*) ;; *) ok=0;; esac
case "$with" in *"FAILED"*) ;; *) ok=0;; esac
[ $ok = 1 ] && echo "RESULT confirmed" || echo "RESULT not_confirmed"
