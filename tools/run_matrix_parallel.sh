#!/bin/sh
# tools/run_matrix_parallel.sh <seeded|preserving> [workers] [tier]
# The seeded / false-alarm matrix, N changes at a time: every worker owns a scratch copy of the
# repository (a git worktree of /repo's HEAD) and of the simulator (path dependency rewritten to
# that copy), under /root/scratch/mx/<k>; /repo itself is never touched. Each change is applied to
# the worker's copy, the 73 unit tests and all checks are run against it, and it is undone again.
# seeded:     writes seeded/RESULTS.tsv   (name, caught by, harness errors, note)
# preserving: prints one line per change and exits 1 if any check raised an alarm
MODE="${1:-seeded}"; N="${2:-8}"; TIER="${3:-quick}"
ROOT="$(cd "$(dirname "$0")/.." && pwd)"
S=/root/scratch/mx
IDS="C03 C04 C05 C06 C09 C10 C11 C12 C16 C17 C18 C20"
rm -rf "$S"; git -C /repo worktree prune; mkdir -p "$S"
if [ "$MODE" = seeded ]; then
    ls -d "$ROOT"/seeded/[CRSTUVWXYZ]*_[a-z] "$ROOT"/seeded/own/m* 2>/dev/null > "$S/list"
else
    ls -d "$ROOT"/seeded/preserving/* > "$S/list"
fi
# MATRIX_FILTER=<extended regex>: only the changes whose path matches; in seeded mode their rows
# replace / extend those already in seeded/RESULTS.tsv instead of rewriting the whole file
if [ -n "$MATRIX_FILTER" ]; then grep -E "$MATRIX_FILTER" "$S/list" > "$S/list.f"; mv "$S/list.f" "$S/list"; fi
total=$(wc -l < "$S/list")
worker() {
    k="$1"; D="$S/$k"
    mkdir -p "$D/verif"
    git -C /repo worktree add -q --detach "$D/repo" HEAD || exit 2
    rsync -a --exclude target "$ROOT/sim" "$D/verif/"
    cp "$ROOT/check" "$ROOT/known_findings.json" "$D/verif/"
    sed -i "s|path = \"/repo\"|path = \"$D/repo\"|" "$D/verif/sim/Cargo.toml"
    i=0
    while read -r d; do
        i=$((i + 1))
        [ $(( (i - 1) % N )) -eq "$k" ] || continue
        [ -f "$d/patch.diff" ] || continue
        name=$(echo "$d" | sed "s|$ROOT/seeded/||")
        cd "$D/repo" || exit 2
        git checkout -q -- . ; git clean -fdq
        if ! git apply "$d/patch.diff" 2>/dev/null; then
            printf "%s\t \t \ttry_mutant: patch does not apply\n" "$name" >> "$S/out.$k"; continue
        fi
        T=$(CARGO_TARGET_DIR="$D/repo/target" cargo test --offline --lib 2>&1 | grep -E "^test result" | head -1)
        case "$T" in
            *"73 passed; 0 failed"*) ;;
            *) git checkout -q -- .; git clean -fdq; printf "%s\t \t \ttry_mutant: the change does not pass the 73 unit tests\n" "$name" >> "$S/out.$k"; continue;;
        esac
        caught=""; err=""
        for id in $IDS; do
            out=$(VERIF_WORKERS=4 VERIF_EVIDENCE_DIR="$D/verif/sim/target/mutant-evidence" "$D/verif/check" "$id" "$TIER" 2>&1); rc=$?
            [ $rc -eq 1 ] && caught="$caught $id"
            [ $rc -ge 2 ] && err="$err $id"
        done
        git checkout -q -- .; git clean -fdq
        if [ -f "$d/expected_alarms" ]; then
            # a change that keeps the other properties but is known to break the listed ones
            for x in $(cat "$d/expected_alarms"); do caught=$(echo "$caught" | sed "s/ $x//"); done
        fi
        printf "%s\t%s\t%s\t\n" "$name" "${caught:- }" "${err:- }" >> "$S/out.$k"
        echo "[$k] $name: caught by:${caught}${err:+ harness-error:$err}"
    done < "$S/list"
    git -C /repo worktree remove --force "$D/repo"
}
k=0
while [ $k -lt "$N" ]; do worker $k & k=$((k + 1)); done
wait
cat "$S"/out.* 2>/dev/null | sort > "$S/all.tsv"
done_n=$(wc -l < "$S/all.tsv")
echo "matrix: $done_n of $total changes run"
rc=0
if [ "$MODE" = seeded ]; then
    if [ -n "$MATRIX_FILTER" ] && [ -f "$ROOT/seeded/RESULTS.tsv" ]; then
        awk -F'\t' 'NR==FNR {seen[$1]=1; next} !($1 in seen)' "$S/all.tsv" "$ROOT/seeded/RESULTS.tsv" > "$S/kept.tsv"
        cat "$S/kept.tsv" "$S/all.tsv" | sort > "$ROOT/seeded/RESULTS.tsv"
    else
        cp "$S/all.tsv" "$ROOT/seeded/RESULTS.tsv"
    fi
    awk -F'\t' '$2 ~ /^ *$/ && $4 == "" {print "NOT CAUGHT: " $1 "  (harness errors:" $3 ")"}' "$S/all.tsv"
else
    awk -F'\t' '$2 !~ /^ *$/ || $3 !~ /^ *$/ {print "ALARM: " $1 " exit1:" $2 " exit2:" $3}' "$S/all.tsv" > "$S/alarms"
    cat "$S/alarms"; [ -s "$S/alarms" ] && rc=1
fi
rm -rf "$S"; git -C /repo worktree prune
exit $rc
