#!/bin/sh
# tools/try_mutant.sh <patch.diff> [tier] [check ids...]
# Applies a seeded change to /repo, runs the repository's own unit tests (a mutant
# the tests already kill proves nothing), runs the given checks (default: all),
# prints which ones raise a VIOLATION, and always restores /repo afterwards.
PATCH="$1"; shift
TIER="${1:-quick}"; [ $# -gt 0 ] && shift
IDS="$*"; [ -n "$IDS" ] || IDS="C03 C04 C05 C06 C09 C10 C11 C12 C16 C17 C18 C20"
ROOT="$(cd "$(dirname "$0")/.." && pwd)"
cd /repo || exit 2
if [ -n "$(git status --porcelain --untracked-files=no)" ]; then echo "try_mutant: /repo is not clean" >&2; exit 2; fi
git apply --check "$PATCH" || { echo "try_mutant: patch does not apply" >&2; exit 2; }
git apply "$PATCH"
trap 'git -C /repo checkout -- . ; git -C /repo clean -fdq' EXIT INT TERM
T=$(cargo test --offline --lib 2>&1 | grep -E "^test result" | head -1)
echo "unit tests with the change: $T"
case "$T" in *"73 passed; 0 failed"*) ;; *) echo "try_mutant: the change does not pass the 73 unit tests"; exit 3;; esac
caught=""
for id in $IDS; do
    out=$(VERIF_EVIDENCE_DIR="$ROOT/sim/target/mutant-evidence" "$ROOT/check" "$id" "$TIER" 2>&1); rc=$?
    n=$(echo "$out" | grep -c "^VIOLATION")
    echo "$id rc=$rc violations=$n $(echo "$out" | grep -m1 '^  signature' )"
    [ $rc -eq 1 ] && caught="$caught $id"
    [ $rc -ge 2 ] && echo "$out" | tail -5
done
echo "CAUGHT_BY:$caught"
