#!/bin/sh
# tools/run_preserving.sh [tier] — false-alarm regression: every change under
# seeded/preserving/ alters behaviour but keeps all claimed properties true (except those named in its expected_alarms file, if any), so every
# check must stay at exit 0 with it applied (each is applied to /repo and undone again).
ROOT="$(cd "$(dirname "$0")/.." && pwd)"
TIER="${1:-quick}"
bad=0
for d in "$ROOT"/seeded/preserving/*; do
    [ -f "$d/patch.diff" ] || continue
    res=$("$ROOT/tools/try_mutant.sh" "$d/patch.diff" "$TIER" 2>&1)
    alarms=$(echo "$res" | grep -E "rc=[12]" | awk '{print $1 ":" $2}' | tr '\n' ' ')
    if [ -f "$d/expected_alarms" ]; then
        # a change that keeps the other properties but is known to break the listed ones
        for x in $(cat "$d/expected_alarms"); do alarms=$(echo "$alarms" | sed "s/$x:rc=1 //"); done
    fi
    note=$(echo "$res" | grep -E "^try_mutant:" | head -1)
    echo "$(basename "$d"): ${alarms:-no alarm} $note"
    [ -n "$alarms" ] && bad=1
done
exit $bad
