#!/bin/sh
# same as verify_seeded.sh, for agents that deliver a,b,c
exec "$(dirname "$0")/verify_seeded.sh" "$@"
