#!/bin/sh
# Build the simulator (both profiles) from files on disk only.
set -e
cd "$(dirname "$0")/sim"
export CARGO_NET_OFFLINE=true
cargo build --release --offline 2>&1 | tail -3
cargo build --profile checked --offline 2>&1 | tail -3
