#!/bin/sh
# Build the simulator (all three profiles) from files on disk only, then prove that it
# is deterministic and that scenarios survive the replay-file round trip.
set -e
ROOT="$(cd "$(dirname "$0")" && pwd)"
cd "$ROOT/sim"
export CARGO_NET_OFFLINE=true
cargo build --release --offline 2>&1 | tail -3
cargo build --profile checked --offline 2>&1 | tail -3
# the unoptimised build that C03 also runs (opt-level 0)
cargo build --offline 2>&1 | tail -3
"$ROOT/selftest.sh" 1000
